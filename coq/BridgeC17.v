(* C17 bridge: the definitions REGENERATED from pykoop/kernel_approximation.py and
   pykoop/lifting_functions.py (Gen/Numeric.v) are the model of AlgR/Rff.v, and the
   theorems of Rff.v / RffInt.v / SeedModel.v are restated about them.  If the source
   changes the generated definitions change and these proofs stop checking. *)
From Coq Require Import Reals Lra Lia String List.
From Coquelicot Require Import Coquelicot.
From PK.AlgR Require Import Rff RffInt NumLib.
From PK Require Import SeedModel.
From PK.Gen Require Import Numeric.
Import ListNotations.
Local Open Scope R_scope.

Definition scaled (shape : R) (X : list R) : list R := vscale (sqrt (2 * shape)) X.

(* ---------- generated transform = model *)
Lemma gen_wo_model : forall shape W offs X,
  gen_rff_transform_weight_only shape (INR (length W)) W offs X
  = feat_wo (productsN W (scaled shape X)).
Proof.
  intros. unfold gen_rff_transform_weight_only, feat_wo, feat_wo_scaled, productsN, rowmat, vscale, scaled.
  rewrite !map_length, map_app, !map_map. reflexivity.
Qed.

Lemma feat_off_scaled_map : forall c p b, length p = length b ->
  vscale c (vscale (sqrt 2) (map cos (vadd p b))) = feat_off_scaled c p b.
Proof.
  intros c p; induction p as [|t p IH]; intros [|beta b] H; cbn in *; try discriminate; try reflexivity.
  f_equal. apply IH. lia.
Qed.

Lemma gen_off_model : forall shape W offs X, length W = length offs ->
  gen_rff_transform_weight_offset shape (INR (length W)) W offs X
  = feat_off (productsN W (scaled shape X)) offs.
Proof.
  intros shape W offs X H. unfold gen_rff_transform_weight_offset, feat_off.
  fold (scaled shape X). change (rowmat (scaled shape X) W) with (productsN W (scaled shape X)).
  unfold productsN at 2. rewrite map_length.
  apply feat_off_scaled_map. unfold productsN. now rewrite map_length.
Qed.

(* ---------- the theorems, about the generated code *)
Lemma cos_scaled_diff : forall shape X Y w, length X = length Y ->
  cos (dot (vsub (scaled shape X) (scaled shape Y)) w)
  = cos (sqrt (2 * shape) * dot (vsub X Y) w).
Proof.
  intros. unfold scaled. now rewrite vscale_vsub, dot_vscale_l.
Qed.

Theorem gen_wo_kernel_estimate : forall shape W offs X Y,
  (0 < length W)%nat -> length X = length Y ->
  dot (gen_rff_transform_weight_only shape (INR (length W)) W offs X)
      (gen_rff_transform_weight_only shape (INR (length W)) W offs Y)
  = (1 / INR (length W)) * Rsum (map (fun w => cos (sqrt (2 * shape) * dot (vsub X Y) w)) W).
Proof.
  intros shape W offs X Y HW HXY. rewrite !gen_wo_model.
  rewrite rff_weight_only_vector by (auto; unfold scaled; now rewrite !vscale_length).
  f_equal. f_equal. apply map_ext. intros w. now apply cos_scaled_diff.
Qed.

Theorem gen_wo_unit_norm : forall shape W offs X, (0 < length W)%nat ->
  dot (gen_rff_transform_weight_only shape (INR (length W)) W offs X)
      (gen_rff_transform_weight_only shape (INR (length W)) W offs X) = 1.
Proof.
  intros. rewrite gen_wo_model. apply rff_weight_only_norm.
  unfold productsN. now rewrite map_length.
Qed.

Theorem gen_wo_width : forall shape W offs X,
  length (gen_rff_transform_weight_only shape (INR (length W)) W offs X)
  = gen_rff_n_features_out_weight_only (length W).
Proof.
  intros. rewrite gen_wo_model, feat_wo_length. unfold productsN. now rewrite map_length.
Qed.

Lemma feat_off_scaled_length : forall c p b, length p = length b ->
  length (feat_off_scaled c p b) = length p.
Proof.
  intros c p; induction p as [|t p IH]; intros [|beta b] H; cbn in *; try discriminate; auto.
Qed.

Theorem gen_off_width : forall shape W offs X, length W = length offs ->
  length (gen_rff_transform_weight_offset shape (INR (length W)) W offs X)
  = gen_rff_n_features_out_weight_offset (length W).
Proof.
  intros. rewrite gen_off_model by assumption. unfold feat_off, gen_rff_n_features_out_weight_offset.
  rewrite feat_off_scaled_length; unfold productsN; now rewrite map_length.
Qed.

(* z(x).z(y) = kernel estimate + a term that depends on the offsets only through
   cos (p_j + q_j + 2 b_j) *)
Theorem gen_off_split : forall shape W offs X Y,
  (0 < length W)%nat -> length W = length offs ->
  let p := productsN W (scaled shape X) in
  let q := productsN W (scaled shape Y) in
  dot (gen_rff_transform_weight_offset shape (INR (length W)) W offs X)
      (gen_rff_transform_weight_offset shape (INR (length W)) W offs Y)
  = (1 / INR (length W)) * sum2 (fun a e => cos (a - e)) p q
    + (1 / INR (length W)) * sum3 (fun a e beta => cos (a + e + 2 * beta)) p q offs.
Proof.
  intros shape W offs X Y HW Ho p q. rewrite !gen_off_model by assumption. fold p q.
  assert (Hp : length p = length W) by (unfold p, productsN; now rewrite map_length).
  assert (Hq : length q = length W) by (unfold q, productsN; now rewrite map_length).
  rewrite rff_weight_offset_dot by lia. now rewrite Hp.
Qed.

(* the mean of that term over an offset uniform on [loc, loc + scale] as drawn by fit *)
Theorem gen_offset_term_mean_zero : forall c,
  RInt (fun beta => cos (c + 2 * beta)) gen_offsets_rvs_loc (gen_offsets_rvs_loc + gen_offsets_rvs_scale) = 0.
Proof.
  intros c. unfold gen_offsets_rvs_loc, gen_offsets_rvs_scale. rewrite Rplus_0_l. apply RInt_offset_zero.
Qed.

Theorem gen_offset_pair_mean : forall a b,
  / gen_offsets_rvs_scale *
    RInt (fun beta => 2 * cos (a + beta) * cos (b + beta)) gen_offsets_rvs_loc
         (gen_offsets_rvs_loc + gen_offsets_rvs_scale)
  = cos (a - b).
Proof.
  intros a b. unfold gen_offsets_rvs_loc, gen_offsets_rvs_scale. rewrite Rplus_0_l. apply mean_two_cos_cos.
Qed.

(* ---------- sampling statements of fit *)
Local Open Scope string_scope.
Lemma gen_ft_lookup_is : gen_ft_lookup =
  [("gaussian", "scipy.stats.norm"); ("laplacian", "scipy.stats.cauchy"); ("cauchy", "scipy.stats.laplace")].
Proof. reflexivity. Qed.
Lemma gen_weights_unit_scale : gen_weights_rvs_scale = 1%R.
Proof. reflexivity. Qed.
Lemma gen_weights_shape : gen_weights_rvs_size = "(self.n_features_in_, self.n_components)".
Proof. reflexivity. Qed.
Lemma gen_offsets_uniform : gen_offsets_rvs_dist = "scipy.stats.uniform.rvs" /\ gen_offsets_rvs_size = "self.n_components".
Proof. split; reflexivity. Qed.
(* both draws receive the SAME seed argument, weights first: the code fact that makes
   SeedModel.rff_int_seed_offsets_reuse_weights / rff_state_disjoint apply *)
Lemma gen_same_seed_argument :
  gen_weights_rvs_seed = gen_offsets_rvs_seed /\
  gen_rff_draw_order = ["self.random_weights_"; "self.random_offsets_"].
Proof. split; reflexivity. Qed.

(* ---------- KernelApproxLiftingFn stacks state, input, features *)
Theorem gen_kernel_lift_layout : forall ns (kt : list R -> list R) X,
  gen_kernel_lift_row ns kt X = (X ++ kt X)%list.
Proof.
  intros. unfold gen_kernel_lift_row. now rewrite app_assoc, firstn_skipn.
Qed.
