(* C01 — specification side of the round-trip theorem (definitions only).
   itf_ep / citf_ep : what inverse-transforming ONE episode on its own gives; mirrors
   inverse / cinverse of Stage.v exactly the way StageSpec.tf_ep mirrors transform.
   The np.unwrap variant of the angle pre-processor (LAngle _ true) is NOT covered by
   itf_ep (it is excluded by [no_unwrap] in every theorem).
   lag / clag     : number of leading samples of the episode lost by the round trip.
   no_unwrap      : no LAngle _ true anywhere in the tree.
   no_preproc     : no LAngle / LSk anywhere in the tree.
   angles_ok      : every cell fed to an angle feature of an LAngle stage, at the point
                    of the pipeline where that stage sits, satisfies [inrange]. *)
From Coq Require Import List ZArith NArith Bool Arith.
From PK Require Import PyList Episodes Stage StageSpec.
Import ListNotations.
Set Implicit Arguments.

Section RSpec.
Variable T : Type.
Variable O : ops T.
Variable inrange : T -> Prop.

Definition leaf_iep (l : leaf T) (d : dims) (X : list (list T)) : list (list T) :=
  match l with
  | LDelay _ dx du => undelay_ep d dx du X
  | _ => map (leaf_inv_row O l d) X
  end.

Fixpoint itf_ep (s : stage T) (d : dims) (X : list (list T)) : list (list T) :=
  match s with
  | Leaf l => leaf_iep l d X
  | Split xs us =>
      let nso := fst (sdims s d) in
      align (citf_ep xs (fst d, 0) (map (firstn nso) X))
            (citf_ep us (0, snd d) (map (skipn nso) X))
  | Pipe c => citf_ep c d X
  end
with citf_ep (c : chain T) (d : dims) (X : list (list T)) : list (list T) :=
  match c with
  | CNil _ => X
  | CCons s c' => itf_ep s d (citf_ep c' (sdims s d) X)
  end.

Lemma itf_ep_leaf l d X : itf_ep (Leaf l) d X = leaf_iep l d X. Proof. reflexivity. Qed.
Lemma itf_ep_split xs us d X :
  itf_ep (Split xs us) d X =
  align (citf_ep xs (fst d, 0) (map (firstn (fst (sdims (Split xs us) d))) X))
        (citf_ep us (0, snd d) (map (skipn (fst (sdims (Split xs us) d))) X)).
Proof. reflexivity. Qed.
Lemma itf_ep_pipe c d X : itf_ep (Pipe c) d X = citf_ep c d X. Proof. reflexivity. Qed.
Lemma citf_ep_nil d X : citf_ep (CNil T) d X = X. Proof. reflexivity. Qed.
Lemma citf_ep_cons s c d X : citf_ep (CCons s c) d X = itf_ep s d (citf_ep c (sdims s d) X).
Proof. reflexivity. Qed.

(* ---------- samples lost at the head of an episode by transform-then-inverse.
   A delay stage rebuilds max(dx,du) - min(dx,du) fewer samples than it consumed;
   the two branches of a split are trailing-aligned twice (once by transform, once
   by inverse), so the shorter-history branch loses what the longer one needs. *)
Definition leaf_lag (l : leaf T) : nat :=
  match l with
  | LDelay _ dx du => Nat.max dx du - Nat.min dx du
  | _ => 0
  end.

Fixpoint lag (s : stage T) : nat :=
  match s with
  | Leaf l => leaf_lag l
  | Split xs us =>
      let sx := csamples_in xs 1 in
      let su := csamples_in us 1 in
      let m := Nat.max sx su in
      Nat.max (clag xs + (m - sx)) (clag us + (m - su))
  | Pipe c => clag c
  end
with clag (c : chain T) : nat :=
  match c with
  | CNil _ => 0
  | CCons s c' => lag s + clag c'
  end.

Lemma lag_leaf l : lag (Leaf l) = leaf_lag l. Proof. reflexivity. Qed.
Lemma lag_split xs us :
  lag (Split xs us) =
  Nat.max (clag xs + (Nat.max (csamples_in xs 1) (csamples_in us 1) - csamples_in xs 1))
          (clag us + (Nat.max (csamples_in xs 1) (csamples_in us 1) - csamples_in us 1)).
Proof. reflexivity. Qed.
Lemma lag_pipe c : lag (Pipe c) = clag c. Proof. reflexivity. Qed.
Lemma clag_nil : clag (CNil T) = 0. Proof. reflexivity. Qed.
Lemma clag_cons s c : clag (CCons s c) = lag s + clag c. Proof. reflexivity. Qed.

(* ---------- syntactic classes of stage trees *)
Definition leaf_no_unwrap (l : leaf T) : bool :=
  match l with
  | LAngle _ _ true => false
  | _ => true
  end.
Fixpoint no_unwrap (s : stage T) : bool :=
  match s with
  | Leaf l => leaf_no_unwrap l
  | Split xs us => cno_unwrap xs && cno_unwrap us
  | Pipe c => cno_unwrap c
  end
with cno_unwrap (c : chain T) : bool :=
  match c with
  | CNil _ => true
  | CCons s c' => no_unwrap s && cno_unwrap c'
  end.

Definition leaf_no_preproc (l : leaf T) : bool :=
  match l with
  | LAngle _ _ _ => false
  | LSk _ _ => false
  | _ => true
  end.
Fixpoint no_preproc (s : stage T) : bool :=
  match s with
  | Leaf l => leaf_no_preproc l
  | Split xs us => cno_preproc xs && cno_preproc us
  | Pipe c => cno_preproc c
  end
with cno_preproc (c : chain T) : bool :=
  match c with
  | CNil _ => true
  | CCons s c' => no_preproc s && cno_preproc c'
  end.

(* every delay stage has the same number of state and input delays AND the two
   branches of every split need the same number of samples: then lag = 0 *)
Definition leaf_balanced (l : leaf T) : bool :=
  match l with
  | LDelay _ dx du => Nat.eqb dx du
  | _ => true
  end.
Fixpoint balanced (s : stage T) : bool :=
  match s with
  | Leaf l => leaf_balanced l
  | Split xs us => cbalanced xs && cbalanced us
                   && Nat.eqb (csamples_in xs 1) (csamples_in us 1)
  | Pipe c => cbalanced c
  end
with cbalanced (c : chain T) : bool :=
  match c with
  | CNil _ => true
  | CCons s c' => balanced s && cbalanced c'
  end.

Lemma no_unwrap_leaf l : no_unwrap (Leaf l) = leaf_no_unwrap l. Proof. reflexivity. Qed.
Lemma no_unwrap_split xs us : no_unwrap (Split xs us) = cno_unwrap xs && cno_unwrap us. Proof. reflexivity. Qed.
Lemma no_unwrap_pipe c : no_unwrap (Pipe c) = cno_unwrap c. Proof. reflexivity. Qed.
Lemma cno_unwrap_cons s c : cno_unwrap (CCons s c) = no_unwrap s && cno_unwrap c. Proof. reflexivity. Qed.
Lemma no_preproc_leaf l : no_preproc (Leaf l) = leaf_no_preproc l. Proof. reflexivity. Qed.
Lemma no_preproc_split xs us : no_preproc (Split xs us) = cno_preproc xs && cno_preproc us. Proof. reflexivity. Qed.
Lemma no_preproc_pipe c : no_preproc (Pipe c) = cno_preproc c. Proof. reflexivity. Qed.
Lemma cno_preproc_cons s c : cno_preproc (CCons s c) = no_preproc s && cno_preproc c. Proof. reflexivity. Qed.
Lemma balanced_leaf l : balanced (Leaf l) = leaf_balanced l. Proof. reflexivity. Qed.
Lemma balanced_split xs us :
  balanced (Split xs us) = cbalanced xs && cbalanced us && Nat.eqb (csamples_in xs 1) (csamples_in us 1).
Proof. reflexivity. Qed.
Lemma balanced_pipe c : balanced (Pipe c) = cbalanced c. Proof. reflexivity. Qed.
Lemma cbalanced_cons s c : cbalanced (CCons s c) = balanced s && cbalanced c. Proof. reflexivity. Qed.

(* ---------- the angle cells are in the range on which atan2(sin, cos) inverts *)
Definition leaf_angles_ok (l : leaf T) (d : dims) (E : list (list T)) : Prop :=
  match l with
  | LAngle _ feats _ =>
      forall r, In r E -> forall k, mem_nat k feats = true -> k < fst d + snd d ->
        inrange (nth k r (op_t0 O))
  | _ => True
  end.

Fixpoint angles_ok (s : stage T) (d : dims) (E : list (list T)) : Prop :=
  match s with
  | Leaf l => leaf_angles_ok l d E
  | Split xs us =>
      cangles_ok xs (fst d, 0) (map (firstn (fst d)) E)
      /\ cangles_ok us (0, snd d) (map (skipn (fst d)) E)
  | Pipe c => cangles_ok c d E
  end
with cangles_ok (c : chain T) (d : dims) (E : list (list T)) : Prop :=
  match c with
  | CNil _ => True
  | CCons s c' => angles_ok s d E /\ cangles_ok c' (sdims s d) (tf_ep O s d E)
  end.

Lemma angles_ok_leaf l d E : angles_ok (Leaf l) d E = leaf_angles_ok l d E. Proof. reflexivity. Qed.
Lemma angles_ok_split xs us d E :
  angles_ok (Split xs us) d E =
  (cangles_ok xs (fst d, 0) (map (firstn (fst d)) E)
   /\ cangles_ok us (0, snd d) (map (skipn (fst d)) E)).
Proof. reflexivity. Qed.
Lemma angles_ok_pipe c d E : angles_ok (Pipe c) d E = cangles_ok c d E. Proof. reflexivity. Qed.
Lemma cangles_ok_nil d E : cangles_ok (CNil T) d E = True. Proof. reflexivity. Qed.
Lemma cangles_ok_cons s c d E :
  cangles_ok (CCons s c) d E = (angles_ok s d E /\ cangles_ok c (sdims s d) (tf_ep O s d E)).
Proof. reflexivity. Qed.

End RSpec.
