(* The block matrices of LmiBlocks.v read as quadratic forms (mathcomp, any commutative
   ring, all sizes): the link between "the code's LMI block is positive semidefinite" and
   the quadratic-form hypotheses of AlgR/Lyapunov.v and AlgR/Dissip.v. *)
From mathcomp Require Import all_ssreflect all_algebra.
Set Implicit Arguments.
Unset Strict Implicit.
Unset Printing Implicit Defensive.
Import GRing.Theory.
Local Open Scope ring_scope.

Section Quad.
Variable R : comRingType.

(* bilinear form of a square matrix *)
Definition bil n (P : 'M[R]_n) (u v : 'cV[R]_n) : 'M[R]_1 := u^T *m P *m v.

(* spectral radius block [[rho P, A^T P], [P^T A, rho P]] on the stacked vector [v; w] *)
Lemma lyap_block_quad n (P A : 'M[R]_n) (rho : R) (v w : 'cV[R]_n) :
  (col_mx v w)^T *m block_mx (rho *: P) (A^T *m P) (P^T *m A) (rho *: P) *m col_mx v w
  = rho *: bil P v v + bil P (A *m v) w + bil P^T w (A *m v) + rho *: bil P w w.
Proof.
rewrite tr_col_mx mul_row_block mul_row_col /bil.
rewrite !mulmxDl !trmx_mul !mulmxA.
rewrite -!scalemxAr -!scalemxAl.
by rewrite addrACA -[RHS]addrA.
Qed.

(* for symmetric P the two cross terms coincide: the form of Lyapunov.v,
   rho Q(v,v) + 2 Q(w, A v) + rho Q(w,w) with Q(u,v) = u^T P v *)
Lemma bil_sym n (P : 'M[R]_n) (u v : 'cV[R]_n) : P^T = P -> bil P u v = bil P v u.
Proof.
move=> sP. rewrite /bil.
have tr11 (M : 'M[R]_1) : M^T = M by rewrite [M]mx11_scalar tr_scalar_mx.
by rewrite -[LHS]tr11 !trmx_mul trmxK sP mulmxA.
Qed.

Lemma lyap_block_quad_sym n (P A : 'M[R]_n) (rho : R) (v w : 'cV[R]_n) : P^T = P ->
  (col_mx v w)^T *m block_mx (rho *: P) (A^T *m P) (P^T *m A) (rho *: P) *m col_mx v w
  = rho *: bil P v v + bil P w (A *m v) *+ 2 + rho *: bil P w w.
Proof.
move=> sP. rewrite lyap_block_quad sP (bil_sym (A *m v) w sP) mulr2n.
by rewrite -!addrA.
Qed.

End Quad.
