(* The block matrices of LmiBlocks.v read as quadratic forms (mathcomp, any commutative
   ring, all sizes): the link between "the code's LMI block is positive semidefinite" and
   the quadratic-form hypotheses of AlgR/Lyapunov.v and AlgR/Dissip.v. *)
From mathcomp Require Import all_ssreflect all_algebra.
Set Implicit Arguments.
Unset Strict Implicit.
Unset Printing Implicit Defensive.
Import GRing.Theory.
Local Open Scope ring_scope.

Section Quad.
Variable R : comRingType.

(* bilinear form of a square matrix *)
Definition bil n (P : 'M[R]_n) (u v : 'cV[R]_n) : 'M[R]_1 := u^T *m P *m v.

(* spectral radius block [[rho P, A^T P], [P^T A, rho P]] on the stacked vector [v; w] *)
Lemma lyap_block_quad n (P A : 'M[R]_n) (rho : R) (v w : 'cV[R]_n) :
  (col_mx v w)^T *m block_mx (rho *: P) (A^T *m P) (P^T *m A) (rho *: P) *m col_mx v w
  = rho *: bil P v v + bil P (A *m v) w + bil P^T w (A *m v) + rho *: bil P w w.
Proof.
rewrite tr_col_mx mul_row_block mul_row_col /bil.
rewrite !mulmxDl !trmx_mul !mulmxA.
rewrite -!scalemxAr -!scalemxAl.
by rewrite addrACA -[RHS]addrA.
Qed.

(* for symmetric P the two cross terms coincide: the form of Lyapunov.v,
   rho Q(v,v) + 2 Q(w, A v) + rho Q(w,w) with Q(u,v) = u^T P v *)
Lemma bil_sym n (P : 'M[R]_n) (u v : 'cV[R]_n) : P^T = P -> bil P u v = bil P v u.
Proof.
move=> sP. rewrite /bil.
have tr11 (M : 'M[R]_1) : M^T = M by rewrite [M]mx11_scalar tr_scalar_mx.
by rewrite -[LHS]tr11 !trmx_mul trmxK sP mulmxA.
Qed.

Lemma lyap_block_quad_sym n (P A : 'M[R]_n) (rho : R) (v w : 'cV[R]_n) : P^T = P ->
  (col_mx v w)^T *m block_mx (rho *: P) (A^T *m P) (P^T *m A) (rho *: P) *m col_mx v w
  = rho *: bil P v v + bil P w (A *m v) *+ 2 + rho *: bil P w w.
Proof.
move=> sP. rewrite lyap_block_quad sP (bil_sym (A *m v) w sP) mulr2n.
by rewrite -!addrA.
Qed.

End Quad.

(* ---------- DMDc variants: the returned state block is A = Q M Q^T with Q^T Q = 1 (retained left
   singular vectors) and M the constrained reduced operator.  Every eigenpair of A with a
   non-zero eigenvalue comes from an eigenpair of M with the same eigenvalue, so a bound on
   the spectrum of M is a bound on the non-zero spectrum of A. *)
Section DmdcLift.
Variable F : fieldType.

Lemma dmdc_lift_eigen p r (Q : 'M[F]_(p, r)) (M : 'M[F]_r) (v : 'cV[F]_p) (lam : F) :
  Q^T *m Q = 1%:M -> lam != 0 -> v != 0 ->
  (Q *m M *m Q^T) *m v = lam *: v ->
  M *m (Q^T *m v) = lam *: (Q^T *m v) /\ Q^T *m v != 0.
Proof.
move=> QQ l0 v0 H.
have H1 : M *m (Q^T *m v) = lam *: (Q^T *m v).
  have := congr1 (mulmx Q^T) H.
  by rewrite !mulmxA QQ mul1mx -scalemxAr -!mulmxA.
split=> //. apply/negP => /eqP z0.
move: H; rewrite -!mulmxA z0 !mulmx0 => /esym/eqP.
by rewrite scaler_eq0 (negbTE l0) (negbTE v0).
Qed.

End DmdcLift.

(* ---------- dissipativity block
   [[P - C^T Xi11 C, -C^T Xi12, A^T P], [-Xi12^T C, -Xi22, B^T P], [P A, P B, P]]
   on the stacked vector [x; u; z]: the form dissip_form of AlgR/Dissip.v (before symmetry of P
   and of the cross terms is used) *)
Section DissipBlock.
Variable R : comRingType.
Variables n m : nat.
Variables (P A : 'M[R]_n) (B : 'M[R]_(n, m)) (C : 'M[R]_n).
Variables (Xi11 : 'M[R]_n) (Xi12 : 'M[R]_(n, m)) (Xi22 : 'M[R]_m).

Definition dissip_block_mx : 'M[R]_((n + m) + n) :=
  block_mx (block_mx (P - C^T *m Xi11 *m C) (- (C^T *m Xi12))
                     (- (Xi12^T *m C)) (- Xi22))
           (col_mx (A^T *m P) (B^T *m P))
           (row_mx (P *m A) (P *m B))
           P.

(* the ten terms, in the order in which the block product yields them *)
Lemma dissip_block_quad (x z : 'cV[R]_n) (u : 'cV[R]_m) :
  (col_mx (col_mx x u) z)^T *m dissip_block_mx *m col_mx (col_mx x u) z
  = x^T *m P *m x - (C *m x)^T *m Xi11 *m (C *m x) - u^T *m Xi12^T *m (C *m x)
    + (- ((C *m x)^T *m Xi12 *m u) - u^T *m Xi22 *m u)
    + (z^T *m P *m (A *m x) + z^T *m P *m (B *m u))
    + ((A *m x)^T *m P *m z + (B *m u)^T *m P *m z + z^T *m P *m z).
Proof.
rewrite /dissip_block_mx !tr_col_mx !mul_row_block !mul_row_col.
rewrite !mulmxDl !mulmxDr !mul_row_col !mulmxDl.
rewrite -[z^T *m row_mx _ _ *m _]mulmxA mul_row_col mulmxDr !mulmxN !mulNmx !trmx_mul !mulmxA.
by [].
Qed.

End DissipBlock.

(* ---------- H-infinity block (the bounded-real form the code builds)
   [[P, A P, B, 0], [P^T A^T, P, 0, P C^T], [B^T, 0, g I, D^T], [0, C P^T, D, g I]]
   on the stacked vector [a; b; c; d] *)
Section HinfBlock.
Variable R : comRingType.
Variables n m l : nat.
Variables (P A : 'M[R]_n) (B : 'M[R]_(n, m)) (C : 'M[R]_(l, n)) (D : 'M[R]_(l, m)) (g : R).

Definition hinf_block_mx : 'M[R]_((n + n) + (m + l)) :=
  block_mx (block_mx P (A *m P) (P^T *m A^T) P)
           (block_mx B 0 0 (P *m C^T))
           (block_mx B^T 0 0 (C *m P^T))
           (block_mx (g%:M) D^T D (g%:M)).

(* the twelve terms, in the order in which the block product yields them *)
Lemma hinf_block_quad (a b : 'cV[R]_n) (c : 'cV[R]_m) (d : 'cV[R]_l) :
  (col_mx (col_mx a b) (col_mx c d))^T *m hinf_block_mx *m col_mx (col_mx a b) (col_mx c d)
  = a^T *m P *m a + b^T *m P^T *m A^T *m a + c^T *m B^T *m a
    + (a^T *m A *m P *m b + b^T *m P *m b + d^T *m C *m P^T *m b)
    + (a^T *m B *m c + (c^T *m g%:M *m c + d^T *m D *m c)
       + (b^T *m P *m C^T *m d + (c^T *m D^T *m d + d^T *m g%:M *m d))).
Proof.
rewrite /hinf_block_mx !tr_col_mx !mul_row_block !mul_row_col.
by rewrite !add_row_mx !mul_row_col !mulmx0 !addr0 !add0r !mulmxDl !mulmxA.
Qed.

End HinfBlock.
