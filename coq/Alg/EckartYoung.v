(* Alg/EckartYoung.v -- property C14: the truncated SVD is the best approximation of its rank in the Frobenius norm
   (Eckart-Young-Mirsky), for matrices of arbitrary sizes over an arbitrary realFieldType.

   X = Q diag(s) Z^T with Q^T Q = 1, Z^T Z = 1 (the economy factors), s >= 0 non-increasing.
   X_r = the product of the first r triplets.  Competitors: every matrix Y = W M whose column space has an orthonormal
   basis W of r columns (over the reals every matrix of rank <= r has one, by Gram-Schmidt; the square roots that
   needs are not available in a realFieldType, so the basis is part of the statement).  *)
From mathcomp Require Import all_ssreflect all_algebra.
From PK.Alg Require Import Edmd.
From mathcomp.algebra_tactics Require Import ring.

Set Implicit Arguments.
Unset Strict Implicit.
Unset Printing Implicit Defensive.

Import Order.Theory GRing.Theory Num.Theory.
Local Open Scope ring_scope.

Section Knapsack.
Variable R : realFieldType.
Lemma knapsack k (r : nat) (a w : 'I_k -> R) :
  (forall i j : 'I_k, (i <= j)%N -> a j <= a i) -> (forall i, 0 <= a i) ->
  (forall i, 0 <= w i <= 1) -> \sum_i w i <= r%:R ->
  \sum_i a i * w i <= \sum_(i < k | (i < r)%N) a i.
Proof.
move=> amono a0 w01 wsum.
case: (ltnP r k) => [rk|kr]; last first.
  have H (i : 'I_k) : (i < r)%N by exact: leq_trans (ltn_ord i) kr.
  have -> : \sum_(i < k | (i < r)%N) a i = \sum_i a i by apply: eq_bigl => i; rewrite H.
  apply: ler_sum => i _; rewrite -[X in _ <= X]mulr1; apply: ler_wpmul2l; first exact: a0.
  by case/andP: (w01 i).
pose t : R := a (Ordinal rk).
have t0 : 0 <= t by exact: a0.
have big_hi (i : 'I_k) : (i < r)%N -> t <= a i by move=> ir; apply: amono; rewrite /= ltnW.
have small_lo (i : 'I_k) : ~~ (i < r)%N -> a i <= t by rewrite -leqNgt => ri; apply: amono.
rewrite -subr_le0.
have -> : \sum_i a i * w i - \sum_(i < k | (i < r)%N) a i
        = \sum_(i < k | (i < r)%N) a i * (w i - 1) + \sum_(i < k | ~~ (i < r)%N) a i * w i.
  rewrite (bigID (fun i : 'I_k => (i < r)%N)) /= addrAC -sumrB; congr (_ + _).
  by apply: eq_bigr => i _; rewrite mulrBr mulr1.
have le1 : \sum_(i < k | (i < r)%N) a i * (w i - 1) <= \sum_(i < k | (i < r)%N) t * (w i - 1).
  apply: ler_sum => i ir; apply: ler_wnmul2r; last exact: big_hi.
  by rewrite subr_le0; case/andP: (w01 i).
have le2 : \sum_(i < k | ~~ (i < r)%N) a i * w i <= \sum_(i < k | ~~ (i < r)%N) t * w i.
  by apply: ler_sum => i ir; apply: ler_wpmul2r; [case/andP: (w01 i)|exact: small_lo].
apply: (le_trans (ler_add le1 le2)).
rewrite -!mulr_sumr -mulrDr; apply: mulr_ge0_le0 => //.
have := wsum; rewrite (bigID (fun i : 'I_k => (i < r)%N)) /= => wsum'.
have c1 : \sum_(i < k | (i < r)%N) (1 : R) = r%:R by rewrite (big_ord_narrow (ltnW rk)) /= sumr_const card_ord.
rewrite sumrB addrAC subr_le0 c1; exact: wsum'.
Qed.
End Knapsack.

Section Mx.
Variable R : realFieldType.

(* diagonal entries of G^T G are sums of squares *)
Lemma gram_diag m k (G : 'M[R]_(m,k)) i : (G^T *m G) i i = \sum_j G j i ^+ 2.
Proof. by rewrite mxE; apply: eq_bigr => j _; rewrite mxE expr2. Qed.

Lemma gram_diag_ge0 m k (G : 'M[R]_(m,k)) i : 0 <= (G^T *m G) i i.
Proof. by rewrite gram_diag; apply: sumr_ge0 => j _; exact: sqr_ge0. Qed.

(* two families of orthonormal columns: the Gram matrix of the coordinates of one in the other has diagonal <= 1 *)
Lemma proj_diag_le1 m a b (A : 'M[R]_(m,a)) (B : 'M[R]_(m,b)) i :
  A^T *m A = 1%:M -> B^T *m B = 1%:M -> ((A^T *m B)^T *m (A^T *m B)) i i <= 1.
Proof.
move=> AA BB.
pose N := (1%:M - A *m A^T) *m B.
have NN : N^T *m N = 1%:M - (A^T *m B)^T *m (A^T *m B).
  rewrite /N trmx_mul linearB /= trmx1 trmx_mul trmxK.
  rewrite mulmxA -[B^T *m _ *m _]mulmxA.
  have -> : (1%:M - A *m A^T) *m (1%:M - A *m A^T) = 1%:M - A *m A^T.
    rewrite mulmxBl !mulmxBr mul1mx mulmx1 mul1mx.
    have -> : A *m A^T *m (A *m A^T) = A *m A^T by rewrite mulmxA -[A *m A^T *m A]mulmxA AA mulmx1.
    by rewrite subrr subr0.
  by rewrite mulmxBr mulmx1 mulmxBl BB trmx_mul trmxK !mulmxA.
have := gram_diag_ge0 N i; rewrite NN !mxE eqxx /= subr_ge0.
by [].
Qed.

End Mx.

Section EY.
Variable R : realFieldType.
Variables m n k : nat.
Variables (Q : 'M[R]_(m,k)) (Z : 'M[R]_(n,k)).
Hypothesis QQ : Q^T *m Q = 1%:M.
Hypothesis ZZ : Z^T *m Z = 1%:M.

(* || Q diag(d) Z^T ||_F^2 = sum d_i^2 *)
Lemma frob2_svd (d : 'rV[R]_k) : frob2 (Q *m diag_mx d *m Z^T) = \sum_i d 0 i ^+ 2.
Proof.
rewrite /frob2 !trmx_mul trmxK tr_diag_mx.
have -> : Q *m diag_mx d *m Z^T *m (Z *m (diag_mx d *m Q^T)) = Q *m (diag_mx d *m (Z^T *m Z) *m diag_mx d *m Q^T)
  by rewrite !mulmxA.
rewrite ZZ mulmx1 mxtrace_mulC -!mulmxA QQ mulmx1 mulmx_diag mxtrace_diag.
by apply: eq_bigr => i _; rewrite mxE expr2.
Qed.

Variable s : 'rV[R]_k.
Hypothesis s0 : forall i, 0 <= s 0 i.
Hypothesis smono : forall i j : 'I_k, (i <= j)%N -> s 0 j <= s 0 i.

Definition svd_mx (d : 'rV[R]_k) : 'M[R]_(m,n) := Q *m diag_mx d *m Z^T.
Definition trunc (r : nat) : 'rV[R]_k := \row_i (if (i < r)%N then s 0 i else 0).

(* the error of the truncation is the sum of the discarded squares *)
Lemma trunc_error r : frob2 (svd_mx s - svd_mx (trunc r)) = \sum_(i < k | ~~ (i < r)%N) s 0 i ^+ 2.
Proof.
have -> : svd_mx s - svd_mx (trunc r) = svd_mx (s - trunc r).
  by rewrite /svd_mx -mulmxBl -mulmxBr -linearB.
rewrite frob2_svd (bigID (fun i : 'I_k => (i < r)%N)) /=.
rewrite big1 ?add0r; last by move=> i ir; rewrite !mxE ir subrr expr0n.
by apply: eq_bigr => i /negbTE ir; rewrite !mxE ir subr0.
Qed.

(* Pythagoras without projectors: || X - W M ||^2 = ||X||^2 - ||W^T X||^2 + ||W^T X - M||^2 when W^T W = 1 *)
Lemma pythagoras r (X : 'M[R]_(m,n)) (W : 'M[R]_(m,r)) (M : 'M[R]_(r,n)) :
  W^T *m W = 1%:M -> frob2 (X - W *m M) = frob2 X - frob2 (W^T *m X) + frob2 (W^T *m X - M).
Proof.
move=> WW. rewrite !frob2B.
have -> : frob2 (W *m M) = frob2 M.
  rewrite /frob2.
  have -> : W *m M *m (W *m M)^T = W *m (M *m M^T *m W^T) by rewrite trmx_mul !mulmxA.
  by rewrite mxtrace_mulC -!mulmxA WW mulmx1.
have -> : fip X (W *m M) = fip (W^T *m X) M.
  rewrite /fip.
  have -> : X *m (W *m M)^T = X *m M^T *m W^T by rewrite trmx_mul mulmxA.
  by rewrite mxtrace_mulC !mulmxA.
set a := frob2 X; set b := frob2 M; set c := frob2 (W^T *m X); set d := fip _ _ *+ 2.
by rewrite /d; ring.
Qed.

(* || W^T X ||^2 as a weighted sum of the squared singular values *)
Lemma proj_norm r (W : 'M[R]_(m,r)) :
  frob2 (W^T *m svd_mx s) = \sum_i s 0 i ^+ 2 * ((W^T *m Q)^T *m (W^T *m Q)) i i.
Proof.
set G := W^T *m Q.
have -> : W^T *m svd_mx s = G *m diag_mx s *m Z^T by rewrite /svd_mx /G !mulmxA.
rewrite /frob2.
have -> : G *m diag_mx s *m Z^T *m (G *m diag_mx s *m Z^T)^T = G *m (diag_mx s *m (Z^T *m Z) *m diag_mx s) *m G^T
  by rewrite !trmx_mul trmxK tr_diag_mx !mulmxA.
rewrite ZZ mulmx1 mulmx_diag mxtrace_mulC.
set d := (\row_i _).
have -> : G^T *m (G *m diag_mx d) = (G^T *m G) *m diag_mx d by rewrite mulmxA.
rewrite /mxtrace; apply: eq_bigr => i _.
by rewrite mul_mx_diag mxE /d mxE expr2 mulrC.
Qed.

(* Eckart-Young-Mirsky for the Frobenius norm *)
Theorem eckart_young r (W : 'M[R]_(m,r)) (M : 'M[R]_(r,n)) :
  W^T *m W = 1%:M -> frob2 (svd_mx s - svd_mx (trunc r)) <= frob2 (svd_mx s - W *m M).
Proof.
move=> WW.
rewrite (pythagoras _ _ WW) trunc_error.
apply: (@le_trans _ _ (frob2 (svd_mx s) - frob2 (W^T *m svd_mx s))); last by rewrite ler_addl frob2_ge0.
rewrite frob2_svd proj_norm.
rewrite ler_subr_addr addrC -ler_subr_addr [X in _ <= X - _](bigID (fun i : 'I_k => (i < r)%N)) /= addrK.
apply: knapsack.
- by move=> i j ij; rewrite ler_sqr ?nnegrE ?s0 // smono.
- by move=> i; exact: sqr_ge0.
- by move=> i; rewrite gram_diag_ge0 /= proj_diag_le1.
- rewrite -[X in X <= _]/(\tr ((W^T *m Q)^T *m (W^T *m Q))) mxtrace_mulC.
  have -> : W^T *m Q *m (W^T *m Q)^T = (Q^T *m W)^T *m (Q^T *m W) by rewrite !trmx_mul !trmxK.
  rewrite /mxtrace.
  apply: (@le_trans _ _ (\sum_(j < r) (1 : R))); first by apply: ler_sum => j _; exact: proj_diag_le1.
  by rewrite sumr_const card_ord -mulr_natr mul1r.
Qed.
End EY.
