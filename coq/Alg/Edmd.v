(* Alg/Edmd.v -- properties C05/C06: the EDMD / Tikhonov-EDMD regressor
   (pykoop/regressors.py, Edmd._fit_regressor) as a matrix least-squares
   problem.  Everything is stated for matrices of ARBITRARY sizes over an
   arbitrary realFieldType (purely equational lemmas over a comRingType /
   fieldType where no order is needed).

   Notation (same as the Python code):
     Psi : 'M_(p,q)  lifted snapshots, one column per sample
     Thp : 'M_(r,q)  shifted lifted states
     U V : 'M_(r,p)  candidate Koopman matrices
     alpha : R       Tikhonov coefficient
   cost U = || Thp - U Psi ||_F^2 + alpha ||U||_F^2
   normal equations:  U (Psi Psi^T + alpha I) = Thp Psi^T.              *)
From mathcomp Require Import all_ssreflect all_algebra.

Set Implicit Arguments.
Unset Strict Implicit.
Unset Printing Implicit Defensive.

Import Order.Theory GRing.Theory Num.Theory.
Local Open Scope ring_scope.

(* ------------------------------------------------------------------ *)
(* Definitions (specification)                                         *)
(* ------------------------------------------------------------------ *)
Section Defs.
Variable R : ringType.

(* squared Frobenius norm *)
Definition frob2 m n (M : 'M[R]_(m,n)) : R := \tr (M *m M^T).

(* Frobenius inner product <A,B> = tr (A B^T) *)
Definition fip m n (A B : 'M[R]_(m,n)) : R := \tr (A *m B^T).

(* regularised least-squares cost *)
Definition cost p q r (Psi : 'M[R]_(p,q)) (Thp : 'M[R]_(r,q)) (alpha : R)
  (U : 'M[R]_(r,p)) : R :=
  frob2 (Thp - U *m Psi) + alpha * frob2 U.

(* normal equations *)
Definition normal_eq p q r (Psi : 'M[R]_(p,q)) (Thp : 'M[R]_(r,q)) (alpha : R)
  (U : 'M[R]_(r,p)) : Prop :=
  U *m (Psi *m Psi^T + alpha%:M) = Thp *m Psi^T.

End Defs.

(* two small AC rearrangements in an abelian group *)
Lemma ac_sq (R : zmodType) (a b c d : R) : a + b + (c + d) = a + d + (b + c).
Proof. by rewrite (addrC c) addrACA. Qed.

Lemma ac_costdiff (R : zmodType) (a b d e x : R) :
  a + b - x + (d + e + x) - (a + d) = b + e.
Proof.
rewrite (addrC (d + e)) addrA subrK.
by rewrite addrACA (addrC (a + d)) addrK.
Qed.

Lemma ac_costdiff_gen (R : zmodType) (a b d e x y : R) :
  a + b + (- y - x) + (d + e) + x - (a + d) = b + e - y.
Proof.
rewrite (addrAC _ (d + e) x) -(addrA (a + b)) subrK.
rewrite (addrAC (a + b)) (addrAC _ (- y)); congr (_ - y).
by rewrite addrACA addrAC subrr add0r.
Qed.

(* ------------------------------------------------------------------ *)
(* Frobenius inner product: bilinear, symmetric                        *)
(* ------------------------------------------------------------------ *)
Section FipComRing.
Variable R : comRingType.
Variables m n : nat.
Implicit Types A B C : 'M[R]_(m,n).

Lemma frob2_fip A : frob2 A = fip A A.
Proof. by []. Qed.

Lemma fipC A B : fip A B = fip B A.
Proof. by rewrite /fip -mxtrace_tr trmx_mul trmxK. Qed.

Lemma fipDl A B C : fip (A + B) C = fip A C + fip B C.
Proof. by rewrite /fip mulmxDl mxtraceD. Qed.

Lemma fipDr A B C : fip A (B + C) = fip A B + fip A C.
Proof. by rewrite fipC fipDl !(fipC A). Qed.

Lemma fipNl A B : fip (- A) B = - fip A B.
Proof. by rewrite /fip mulNmx raddfN. Qed.

Lemma fipNr A B : fip A (- B) = - fip A B.
Proof. by rewrite fipC fipNl fipC. Qed.

Lemma frob2D A B : frob2 (A + B) = frob2 A + frob2 B + fip A B *+ 2.
Proof.
rewrite !frob2_fip fipDl !fipDr (fipC B A) mulr2n.
exact: ac_sq.
Qed.

Lemma frob2B A B : frob2 (A - B) = frob2 A + frob2 B - fip A B *+ 2.
Proof. by rewrite frob2D fipNr mulNrn !frob2_fip fipNl fipNr opprK. Qed.

End FipComRing.

(* <A C, B> = <A, B C^T> *)
Lemma fip_mulr (R : comRingType) m n k
  (A : 'M[R]_(m,k)) (C : 'M[R]_(k,n)) (B : 'M[R]_(m,n)) :
  fip (A *m C) B = fip A (B *m C^T).
Proof. by rewrite /fip trmx_mul trmxK mulmxA. Qed.

(* ------------------------------------------------------------------ *)
(* (1) cost difference under the normal equations (any comRingType)    *)
(* ------------------------------------------------------------------ *)
Section CostDiff.
Variable R : comRingType.
Variables p q r : nat.
Variables (Psi : 'M[R]_(p,q)) (Thp : 'M[R]_(r,q)) (alpha : R).
Implicit Types U V W : 'M[R]_(r,p).

Let G : 'M[R]_p := Psi *m Psi^T + alpha%:M.

Lemma tr_quad_split W :
  \tr (W *m (Psi *m Psi^T + alpha%:M) *m W^T)
  = frob2 (W *m Psi) + alpha * frob2 W.
Proof.
rewrite mulmxDr mulmxDl mxtraceD /frob2 trmx_mul !mulmxA; congr (_ + _).
by rewrite mul_mx_scalar -scalemxAl mxtraceZ.
Qed.

(* the residual is Frobenius-orthogonal to W Psi up to the Tikhonov term *)
Lemma normal_eq_cross U W :
  normal_eq Psi Thp alpha U ->
  fip (W *m Psi) (Thp - U *m Psi) = alpha * fip W U.
Proof.
rewrite /normal_eq => HU.
rewrite fip_mulr mulmxBl -HU -mulmxA mulmxDr addrC addKr.
by rewrite mul_mx_scalar /fip linearZ /= -scalemxAr mxtraceZ.
Qed.

(* general versions (no hypothesis on U): N := Thp Psi^T - U G is the
   residual of the normal equations (= -1/2 gradient of the cost at U) *)
Lemma cross_gen U W :
  fip (W *m Psi) (Thp - U *m Psi)
  = fip W (Thp *m Psi^T - U *m (Psi *m Psi^T + alpha%:M)) + alpha * fip W U.
Proof.
rewrite fip_mulr mulmxBl -mulmxA.
have -> : Thp *m Psi^T - U *m (Psi *m Psi^T)
        = (Thp *m Psi^T - U *m (Psi *m Psi^T + alpha%:M)) + U *m alpha%:M.
  by rewrite mulmxDr opprD addrA subrK.
rewrite fipDr; congr (_ + _).
by rewrite mul_mx_scalar /fip linearZ /= -scalemxAr mxtraceZ.
Qed.

Theorem cost_diff_gen U V :
  cost Psi Thp alpha V - cost Psi Thp alpha U
  = \tr ((V - U) *m (Psi *m Psi^T + alpha%:M) *m (V - U)^T)
    - fip (V - U) (Thp *m Psi^T - U *m (Psi *m Psi^T + alpha%:M)) *+ 2.
Proof.
rewrite tr_quad_split /cost.
set W := V - U.
have -> : V = U + W by rewrite /W addrC subrK.
have -> : Thp - (U + W) *m Psi = (Thp - U *m Psi) - W *m Psi.
  by rewrite mulmxDl opprD addrA.
rewrite frob2B (frob2D U W) (fipC _ (W *m Psi)) cross_gen.
rewrite (fipC U W) 2!mulrDr mulrnAr mulrnDl opprD addrA.
exact: ac_costdiff_gen.
Qed.

Theorem cost_diff U V :
  normal_eq Psi Thp alpha U ->
  cost Psi Thp alpha V - cost Psi Thp alpha U
  = \tr ((V - U) *m (Psi *m Psi^T + alpha%:M) *m (V - U)^T).
Proof.
move=> HU; rewrite tr_quad_split /cost.
set W := V - U.
have -> : V = U + W by rewrite /W addrC subrK.
have -> : Thp - (U + W) *m Psi = (Thp - U *m Psi) - W *m Psi.
  by rewrite mulmxDl opprD addrA.
rewrite frob2B (frob2D U W) (fipC _ (W *m Psi)) (normal_eq_cross W HU).
rewrite (fipC U W) 2!mulrDr mulrnAr.
exact: ac_costdiff.
Qed.

End CostDiff.

(* ------------------------------------------------------------------ *)
(* (2) optimality over a realFieldType (only an ordered domain needed) *)
(* ------------------------------------------------------------------ *)
Section Optimal.
Variable R : realFieldType.

Lemma frob2_sum m n (M : 'M[R]_(m,n)) :
  frob2 M = \sum_i \sum_j M i j ^+ 2.
Proof.
rewrite /frob2 /mxtrace; apply: eq_bigr => i _.
by rewrite mxE; apply: eq_bigr => j _; rewrite mxE expr2.
Qed.

Lemma frob2_ge0 m n (M : 'M[R]_(m,n)) : 0 <= frob2 M.
Proof.
rewrite frob2_sum; apply: sumr_ge0 => i _; apply: sumr_ge0 => j _.
exact: sqr_ge0.
Qed.

(* the squared Frobenius norm is definite *)
Lemma frob2_eq0 m n (M : 'M[R]_(m,n)) : (frob2 M == 0) = (M == 0).
Proof.
apply/idP/idP => [|/eqP->]; last by rewrite /frob2 mul0mx mxtrace0.
rewrite frob2_sum psumr_eq0 => [/allP H|i _]; last first.
  by apply: sumr_ge0 => j _; exact: sqr_ge0.
apply/eqP/matrixP => i j; rewrite mxE.
have := H i; rewrite mem_index_enum /= => /(_ isT).
rewrite psumr_eq0 => [/allP Hi|? _]; last exact: sqr_ge0.
by have := Hi j; rewrite mem_index_enum /= sqrf_eq0 => /(_ isT) /eqP.
Qed.

Variables p q r : nat.
Variables (Psi : 'M[R]_(p,q)) (Thp : 'M[R]_(r,q)) (alpha : R).

Lemma tr_quad_ge0 (W : 'M[R]_(r,p)) :
  0 <= alpha -> 0 <= \tr (W *m (Psi *m Psi^T + alpha%:M) *m W^T).
Proof.
move=> a0; rewrite tr_quad_split addr_ge0 ?frob2_ge0 //.
by rewrite mulr_ge0 ?frob2_ge0.
Qed.

Theorem C06_optimal (U : 'M[R]_(r,p)) :
  normal_eq Psi Thp alpha U -> 0 <= alpha ->
  forall V : 'M[R]_(r,p), cost Psi Thp alpha U <= cost Psi Thp alpha V.
Proof.
by move=> HU a0 V; rewrite -subr_ge0 (cost_diff V HU) tr_quad_ge0.
Qed.

(* strict version: with alpha > 0 the minimiser is unique already at the
   level of the cost (no invertibility hypothesis needed) *)
Theorem C06_optimal_strict (U : 'M[R]_(r,p)) :
  normal_eq Psi Thp alpha U -> 0 < alpha ->
  forall V : 'M[R]_(r,p), V != U -> cost Psi Thp alpha U < cost Psi Thp alpha V.
Proof.
move=> HU a0 V VU; rewrite -subr_gt0 (cost_diff V HU) tr_quad_split.
rewrite ltr_spaddr ?frob2_ge0 // mulr_gt0 // lt0r frob2_ge0 andbT.
by rewrite frob2_eq0 subr_eq0.
Qed.

(* converse of C06_optimal: for alpha >= 0 every global minimiser of the
   cost satisfies the normal equations (perturb U along the residual
   N = Thp Psi^T - U G with a small positive step t = |N|^2 / (c + 1)). *)
Theorem C06_minimiser_normal_eq (U : 'M[R]_(r,p)) :
  0 <= alpha ->
  (forall V : 'M[R]_(r,p), cost Psi Thp alpha U <= cost Psi Thp alpha V) ->
  normal_eq Psi Thp alpha U.
Proof.
move=> a0 Hmin; rewrite /normal_eq.
set G := Psi *m Psi^T + alpha%:M.
set N := Thp *m Psi^T - U *m G.
have [|N0] := boolP (N == 0); first by rewrite /N subr_eq0 => /eqP->.
set n := frob2 N; set c := \tr (N *m G *m N^T).
have n0 : 0 < n by rewrite lt0r frob2_ge0 andbT frob2_eq0.
have c0 : 0 <= c by exact: tr_quad_ge0.
have c1 : 0 < c + 1 by rewrite ltr_paddl ?ltr01.
pose t := n / (c + 1).
have t0 : 0 < t by rewrite divr_gt0.
have tc : t * c <= n.
  rewrite /t -mulrA; apply: ler_pimulr; first exact: ltW.
  by rewrite mulrC ler_pdivr_mulr // mul1r ler_addl ler01.
have := Hmin (U + t *: N); rewrite -subr_ge0 cost_diff_gen.
rewrite (addrC U) addrK -/G -/N.
have -> : \tr (t *: N *m G *m (t *: N)^T) = t * (t * c).
  by rewrite linearZ /= -!scalemxAl -scalemxAr !mxtraceZ.
have -> : fip (t *: N) N = t * n by rewrite /fip -scalemxAl mxtraceZ.
rewrite subr_ge0 => Hle.
have H1 : t * (t * c) <= t * n by rewrite ler_pmul2l.
have H2 : t * n < t * n *+ 2.
  by rewrite mulr2n ltr_addl mulr_gt0.
by have := le_lt_trans (le_trans Hle H1) H2; rewrite ltxx.
Qed.

(* hence: for alpha >= 0,  U minimises the cost  <->  normal equations *)
Corollary C06_optimal_iff (U : 'M[R]_(r,p)) :
  0 <= alpha ->
  (forall V : 'M[R]_(r,p), cost Psi Thp alpha U <= cost Psi Thp alpha V)
  <-> normal_eq Psi Thp alpha U.
Proof.
move=> a0; split; first exact: C06_minimiser_normal_eq.
by move=> HU; exact: C06_optimal.
Qed.

End Optimal.

(* ------------------------------------------------------------------ *)
(* (3)-(6) over a field                                                *)
(* ------------------------------------------------------------------ *)
Section Field.
Variable R : fieldType.
Variables p q r : nat.
Variables (Psi : 'M[R]_(p,q)) (Thp : 'M[R]_(r,q)).

Theorem C06_unique (alpha : R) (U V : 'M[R]_(r,p)) :
  (Psi *m Psi^T + alpha%:M) \in unitmx ->
  normal_eq Psi Thp alpha U -> normal_eq Psi Thp alpha V -> U = V.
Proof.
rewrite /normal_eq => Gu HU HV.
by apply: (can_inj (mulmxK Gu)); rewrite HU HV.
Qed.

(* closed form, for reference: the unique solution is Thp Psi^T G^-1 *)
Lemma C06_closed_form (alpha : R) (U : 'M[R]_(r,p)) :
  (Psi *m Psi^T + alpha%:M) \in unitmx ->
  (normal_eq Psi Thp alpha U <->
   U = Thp *m Psi^T *m invmx (Psi *m Psi^T + alpha%:M)).
Proof.
rewrite /normal_eq => Gu; split=> [<-|->]; first by rewrite mulmxK.
by rewrite mulmxKV.
Qed.

Theorem C06_recovery (alpha : R) (AB U : 'M[R]_(r,p)) :
  Thp = AB *m Psi -> alpha = 0 -> Psi *m Psi^T \in unitmx ->
  normal_eq Psi Thp alpha U -> U = AB.
Proof.
rewrite /normal_eq => -> -> Hu.
rewrite -scalemx1 scale0r addr0 -mulmxA.
exact: (can_inj (mulmxK Hu)).
Qed.

Theorem C06_scaling (alpha c : R) (U : 'M[R]_(r,p)) :
  c != 0 ->
  (U *m (c^-1 *: (Psi *m Psi^T) + c^-1 *: (alpha%:M))
   = c^-1 *: (Thp *m Psi^T))
  <-> U *m (Psi *m Psi^T + alpha%:M) = Thp *m Psi^T.
Proof.
move=> c0; rewrite -scalerDr -scalemxAr; split=> [|->//].
by apply: scalerI; rewrite invr_eq0.
Qed.

End Field.

Section Dmdc.
Variable R : fieldType.
Variables p q r k : nat.
Variables (Psi : 'M[R]_(p,q)) (Thp : 'M[R]_(r,q)).
Variables (Q : 'M[R]_(p,k)) (S : 'M[R]_k) (Z : 'M[R]_(q,k)).

Theorem C06_dmdc :
  Psi = Q *m S *m Z^T -> S \in unitmx ->
  Q^T *m Q = 1%:M -> Z^T *m Z = 1%:M ->
  normal_eq Psi Thp 0 (Thp *m Z *m invmx S *m Q^T).
Proof.
move=> -> Su QQ ZZ; rewrite /normal_eq -scalemx1 scale0r addr0.
rewrite !trmx_mul trmxK !mulmxA.
rewrite -(mulmxA _ Q^T Q) QQ mulmx1 (mulmxKV Su).
by rewrite -(mulmxA _ Z^T Z) ZZ mulmx1.
Qed.

End Dmdc.
