(* Alg/Dmd.v -- property C13: spectral facts about an operator given in
   "modal" form  A = V * diag(L) * W  with  W V = I_r  (DMD / DMDc:
   V = modes, L = eigenvalues, W = a left inverse of the modes).
   Any fieldType, all sizes arbitrary.

   Convention: eigenvectors are COLUMN vectors  v : 'cV_p,  A *m v = lam *: v.

   Satisfiability of the hypothesis W *m V = 1%:M: it forces r <= p
   (lemma [left_inverse_dim]); for r <= p it is satisfiable (lemma
   [left_inverse_sat] exhibits V = pid_mx, W = pid_mx).                  *)
From mathcomp Require Import all_ssreflect all_algebra.

Set Implicit Arguments.
Unset Strict Implicit.
Unset Printing Implicit Defensive.

Import GRing.Theory.
Local Open Scope ring_scope.

Section Dmd.
Variable F : fieldType.
Variables p r : nat.
Implicit Types (V : 'M[F]_(p,r)) (W : 'M[F]_(r,p)) (L : 'rV[F]_r) (D : 'M[F]_r).

(* (8) the columns of V are eigenvectors of V diag(L) W, eigenvalues L *)
Theorem C13_eigpairs V W L :
  W *m V = 1%:M -> (V *m diag_mx L *m W) *m V = V *m diag_mx L.
Proof. by move=> WV; rewrite -mulmxA WV mulmx1. Qed.

(* (9) the reconstructed operator has rank at most r *)
Theorem C13_rank V D W : (\rank (V *m D *m W) <= r)%N.
Proof. exact: mulmx_max_rank. Qed.

(* hypotheses W V = I are satisfiable exactly when r <= p *)
Lemma left_inverse_dim V W : W *m V = 1%:M -> (r <= p)%N.
Proof.
move=> WV; have := mulmx_max_rank W V.
by rewrite WV mxrank1.
Qed.

Lemma left_inverse_sat : (r <= p)%N ->
  exists V W, W *m V = 1%:M :> 'M[F]_r.
Proof.
move=> rp; exists (pid_mx r), (pid_mx r).
by rewrite pid_mx_id // pid_mx_1.
Qed.

(* entries of diag(L) z *)
Lemma diag_mx_mulcE L (z : 'cV[F]_r) j : (diag_mx L *m z) j 0 = L 0 j * z j 0.
Proof.
rewrite mxE (bigD1 j) //= big1 ?addr0 => [|i ij]; first by rewrite mxE eqxx mulr1n.
by rewrite mxE eq_sym (negbTE ij) mulr0n mul0r.
Qed.

(* (10a) a nonzero eigenvalue of A is one of the L_j *)
Theorem C13_spectrum V W L (v : 'cV[F]_p) (lam : F) :
  W *m V = 1%:M ->
  v != 0 -> lam != 0 ->
  (V *m diag_mx L *m W) *m v = lam *: v ->
  [/\ W *m v != 0,
      diag_mx L *m (W *m v) = lam *: (W *m v)
    & exists j, L 0 j = lam].
Proof.
move=> WV v0 lam0 Av; set z := W *m v.
have Vz : V *m (diag_mx L *m z) = lam *: v by rewrite !mulmxA.
have z0 : z != 0.
  apply: contraNneq v0 => zz; move: Vz; rewrite zz !mulmx0 => /esym/eqP.
  by rewrite scaler_eq0 (negbTE lam0).
have Dz : diag_mx L *m z = lam *: z.
  by rewrite scalemxAr -Vz (mulmxA W V) WV mul1mx.
split=> //.
have [j zj] : exists j, z j 0 != 0.
  apply/existsP; apply: contraR z0; rewrite negb_exists => /forallP H.
  apply/eqP/colP => j; have := H j.
  by rewrite negbK => /eqP->; rewrite mxE.
exists j; move/colP/(_ j): Dz; rewrite diag_mx_mulcE [(lam *: z) j 0]mxE.
by move/(mulIf zj).
Qed.

(* (10b) conversely every L_j is an eigenvalue of A, with the nonzero
   eigenvector V e_j (the j-th column of V) *)
Theorem C13_spectrum_conv V W L (j : 'I_r) :
  W *m V = 1%:M ->
  V *m delta_mx j 0 != 0 :> 'cV[F]_p /\
  (V *m diag_mx L *m W) *m (V *m delta_mx j 0)
    = L 0 j *: (V *m delta_mx j (0 : 'I_1)).
Proof.
move=> WV; split.
  apply/eqP => /(congr1 (mulmx W)); rewrite mulmxA WV mul1mx mulmx0.
  by move/matrixP/(_ j 0); rewrite !mxE !eqxx /= => /eqP; rewrite oner_eq0.
rewrite mulmxA C13_eigpairs // -mulmxA scalemxAr; congr (_ *m _).
apply/colP => i; rewrite diag_mx_mulcE !mxE eqxx andbT.
by case: eqP => [->|_]; rewrite ?mulr1n // mulr0 mulr0.
Qed.

(* the column V e_j is the j-th column of V *)
Lemma mul_delta_col V (j : 'I_r) : V *m delta_mx j 0 = col j V.
Proof.
apply/colP => i; rewrite !mxE (bigD1 j) //= big1 ?addr0 => [|k kj].
  by rewrite !mxE !eqxx mulr1.
by rewrite !mxE (negbTE kj) mulr0.
Qed.

(* summary: nonzero spectrum of A = nonzero entries of L *)
Corollary C13_spectrum_iff V W L (lam : F) :
  W *m V = 1%:M -> lam != 0 ->
  (exists2 v : 'cV[F]_p, v != 0 & (V *m diag_mx L *m W) *m v = lam *: v)
  <-> (exists j, L 0 j = lam).
Proof.
move=> WV lam0; split=> [[v v0 Av]|[j <-]].
  by have [] := C13_spectrum WV v0 lam0 Av.
by have [nz ev] := C13_spectrum_conv L j WV; exists (V *m delta_mx j 0).
Qed.

End Dmd.
