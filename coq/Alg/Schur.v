(* Alg/Schur.v -- property C12: the Schur-complement step used by the LMI
   regressors (pykoop/lmi_regressors.py, _create_base_problem, the
   cholesky / sqrt / eig / ldl / svd "inv_method" branches, where
   H = Lm Lm^T): feasibility of the block LMI
        [ Zm          U Lm ]
        [ (U Lm)^T    I    ]  >= 0
   implies  Zm >= U H U^T  with  H = Lm Lm^T  (quadratic-form / Loewner
   order sense).  realFieldType, all sizes arbitrary.

   Quadratic forms are expressed as the (0,0) entry of the 1x1 product
   a^T M a, for COLUMN vectors a.                                        *)
From mathcomp Require Import all_ssreflect all_algebra.

Set Implicit Arguments.
Unset Strict Implicit.
Unset Printing Implicit Defensive.

Import Order.Theory GRing.Theory Num.Theory.
Local Open Scope ring_scope.

Section Defs.
Variable R : ringType.

(* bilinear form a^T M b and quadratic form a^T M a *)
Definition bf m n (M : 'M[R]_(m,n)) (a : 'cV[R]_m) (b : 'cV[R]_n) : R :=
  (a^T *m M *m b) 0 0.
Definition qf n (M : 'M[R]_n) (a : 'cV[R]_n) : R := bf M a a.

End Defs.

(* positive semidefiniteness (of the quadratic form) and Loewner order *)
Definition psd (R : numDomainType) n (M : 'M[R]_n) : Prop :=
  forall a : 'cV[R]_n, 0 <= qf M a.
Definition loewner_le (R : numDomainType) n (A B : 'M[R]_n) : Prop :=
  forall a : 'cV[R]_n, qf A a <= qf B a.

Section BfComRing.
Variable R : comRingType.

Lemma addE m n (X Y : 'M[R]_(m,n)) i j : (X + Y) i j = X i j + Y i j.
Proof. by rewrite mxE. Qed.

Lemma bf_tr m n (M : 'M[R]_(m,n)) a b : bf M^T b a = bf M a b.
Proof.
rewrite /bf.
have -> : b^T *m M^T *m a = (a^T *m M *m b)^T.
  by rewrite !trmx_mul trmxK mulmxA.
by rewrite mxE.
Qed.

Lemma bfNr m n (M : 'M[R]_(m,n)) a b : bf M a (- b) = - bf M a b.
Proof. by rewrite /bf mulmxN mxE. Qed.

Lemma bfNl m n (M : 'M[R]_(m,n)) a b : bf M (- a) b = - bf M a b.
Proof. by rewrite /bf linearN /= !mulNmx mxE. Qed.

Lemma bfDl m n (M : 'M[R]_(m,n)) a a' b : bf M (a + a') b = bf M a b + bf M a' b.
Proof. by rewrite /bf linearD /= !mulmxDl mxE. Qed.

Lemma bfDr m n (M : 'M[R]_(m,n)) a b b' : bf M a (b + b') = bf M a b + bf M a b'.
Proof. by rewrite /bf mulmxDr mxE. Qed.

Lemma bf1C n (a b : 'cV[R]_n) : bf 1%:M a b = bf 1%:M b a.
Proof. by rewrite -bf_tr trmx1. Qed.

(* a^T (M N) b = (M^T a)^T N b *)
Lemma bf_mull m n k (M : 'M[R]_(m,k)) (N : 'M[R]_(k,n)) a b :
  bf (M *m N) a b = bf N (M^T *m a) b.
Proof. by rewrite /bf trmx_mul trmxK !mulmxA. Qed.

Lemma bf_mulr m n k (M : 'M[R]_(m,k)) (N : 'M[R]_(k,n)) a b :
  bf (M *m N) a b = bf M a (N *m b).
Proof. by rewrite /bf !mulmxA. Qed.

Lemma bf1 n (a b : 'cV[R]_n) : bf 1%:M a b = (a^T *m b) 0 0.
Proof. by rewrite /bf mulmx1. Qed.

(* quadratic form of a symmetric 2x2 block matrix at a stacked vector *)
Lemma qf_block r p (A : 'M[R]_r) (B : 'M[R]_(r,p)) (C : 'M[R]_p)
    (a : 'cV[R]_r) (b : 'cV[R]_p) :
  qf (block_mx A B B^T C) (col_mx a b)
  = qf A a + bf B a b *+ 2 + qf C b.
Proof.
rewrite /qf {1}/bf tr_col_mx mul_row_block mul_row_col !mulmxDl !addE.
rewrite -/(bf A a a) -/(bf B^T b a) -/(bf B a b) -/(bf C b b) bf_tr mulr2n.
by rewrite -!addrA; congr (_ + _); rewrite addrA.
Qed.

End BfComRing.

Section Schur.
Variable R : realFieldType.
Variables r p : nat.
Variables (U : 'M[R]_(r,p)) (Lm : 'M[R]_p) (Zm : 'M[R]_r).

(* a^T a is a sum of squares *)
Lemma bf1_ge0 n (a : 'cV[R]_n) : 0 <= bf 1%:M a a.
Proof.
rewrite bf1 mxE; apply: sumr_ge0 => i _.
by rewrite mxE -expr2 sqr_ge0.
Qed.

(* (11) Schur-complement step, quadratic-form statement:
   if   a^T Zm a + 2 a^T (U Lm) b + b^T b >= 0   for all a, b
   then a^T (U Lm Lm^T U^T) a <= a^T Zm a        for all a,
   i.e.  Zm >= U H U^T  with  H = Lm Lm^T.                               *)
Theorem schur_quadratic :
  (forall (a : 'cV[R]_r) (b : 'cV[R]_p),
     0 <= (a^T *m Zm *m a) 0 0
          + 2%:R * (a^T *m (U *m Lm) *m b) 0 0
          + (b^T *m b) 0 0) ->
  forall a : 'cV[R]_r,
    (a^T *m (U *m (Lm *m Lm^T) *m U^T) *m a) 0 0 <= (a^T *m Zm *m a) 0 0.
Proof.
move=> H a; set M := U *m Lm.
have -> : U *m (Lm *m Lm^T) *m U^T = M *m M^T.
  by rewrite /M trmx_mul !mulmxA.
have := H a (- (M^T *m a)); rewrite -/M.
rewrite -/(bf Zm a a) -/(bf M a _) -/(bf (M *m M^T) a a) -bf1.
rewrite !bfNr bfNl opprK -bf_mull mulmx1 -!bf_mulr mulrN.
set x := bf (M *m M^T) a a; set z := bf Zm a a.
rewrite mulr_natl mulr2n opprD addrA -addrA (addrC (- x)) subrr addr0.
by rewrite subr_ge0.
Qed.

(* the same, "reading" version:  block LMI PSD  ==>  Zm >= U H U^T *)
Corollary schur_loewner :
  psd (block_mx Zm (U *m Lm) (U *m Lm)^T 1%:M) ->
  loewner_le (U *m (Lm *m Lm^T) *m U^T) Zm.
Proof.
move=> H; apply: schur_quadratic => a b.
have := H (col_mx a b); rewrite qf_block /qf bf1 /bf.
by rewrite mulr_natl.
Qed.

(* converse (full Schur-complement equivalence for the I block):
   Zm >= U H U^T  ==>  block LMI PSD *)
Theorem schur_quadratic_conv :
  loewner_le (U *m (Lm *m Lm^T) *m U^T) Zm ->
  psd (block_mx Zm (U *m Lm) (U *m Lm)^T 1%:M).
Proof.
set M := U *m Lm => H ab; rewrite -(vsubmxK ab).
set a := usubmx ab; set b := dsubmx ab; rewrite qf_block.
have E : U *m (Lm *m Lm^T) *m U^T = M *m M^T.
  by rewrite /M trmx_mul !mulmxA.
rewrite E in H.
have := bf1_ge0 (M^T *m a + b); have := H a.
rewrite bfDl !bfDr (bf1C b) -!bf_mull mulmx1 -bf_mulr /qf.
set x := bf (M *m M^T) a a; set z := bf Zm a a; set y := bf M a b.
set w := bf 1%:M b b => xz H2.
by apply: le_trans H2 _; rewrite mulr2n !addrA !ler_add2r.
Qed.

End Schur.
