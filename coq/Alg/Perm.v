(* Alg/Perm.v -- property C05: the Gram matrices G = Thp Psi^T and
   H = Psi Psi^T used by the EDMD regressors are invariant under a
   simultaneous permutation of the training pairs (the columns of Psi and
   Thp).  Any commutative ring, all sizes arbitrary.                     *)
From mathcomp Require Import all_ssreflect all_algebra.
From mathcomp Require Import fingroup perm.  (* for 'S_q *)

Set Implicit Arguments.
Unset Strict Implicit.
Unset Printing Implicit Defensive.

Import GRing.Theory.
Local Open Scope ring_scope.

Section GramPerm.
Variable R : comRingType.
Variables m n q : nat.

(* a permutation matrix is orthogonal *)
Lemma perm_mx_orth (s : 'S_q) : perm_mx s *m (perm_mx s)^T = 1%:M :> 'M[R]_q.
Proof. by rewrite tr_perm_mx -perm_mxM mulgV perm_mx1. Qed.

Theorem gram_perm (s : 'S_q) (A : 'M[R]_(m,q)) (B : 'M[R]_(n,q)) :
  (A *m perm_mx s) *m (B *m perm_mx s)^T = A *m B^T.
Proof.
by rewrite trmx_mul mulmxA -(mulmxA A) perm_mx_orth mulmx1.
Qed.

(* the same statement with the column permutation written as col_perm *)
Corollary gram_col_perm (s : 'S_q) (A : 'M[R]_(m,q)) (B : 'M[R]_(n,q)) :
  col_perm s A *m (col_perm s B)^T = A *m B^T.
Proof. by rewrite !col_permE gram_perm. Qed.

End GramPerm.

(* Consequence for C05: the normal equations (hence, by C06_unique, the
   fitted Koopman matrix) do not depend on the order of the samples.    *)
Section NormalEqPerm.
Variable R : comRingType.
Variables p q r : nat.

Corollary normal_eq_perm (s : 'S_q) (Psi : 'M[R]_(p,q)) (Thp : 'M[R]_(r,q))
    (alpha : R) (U : 'M[R]_(r,p)) :
  U *m ((Psi *m perm_mx s) *m (Psi *m perm_mx s)^T + alpha%:M)
    = (Thp *m perm_mx s) *m (Psi *m perm_mx s)^T
  <-> U *m (Psi *m Psi^T + alpha%:M) = Thp *m Psi^T.
Proof. by rewrite !gram_perm. Qed.

End NormalEqPerm.
