(* C01 — round trip: inverse-transforming the transform of an episode returns the
   trailing samples of that episode, for EVERY stage tree (any nesting of splits and
   pipelines), on the per-episode specifications tf_ep / itf_ep and then on the model's
   transform / inverse (ep = false and ep = true). *)
From Coq Require Import List ZArith NArith Bool Arith Lia.
From PK Require Import PyList ListFacts Episodes EpisodesFacts Stage StageEqns StageSpec StageFacts
  EpisodeSem NonInterf RoundtripSpec RoundtripList RoundtripDelay RoundtripLeaf.
Import ListNotations.
Set Implicit Arguments.

(* ------------------------------------------------------------ align (no cell operations) *)
Section Align.
Variable T : Type.
Notation mat := (list (list T)).

Lemma align_skipn k (A B : mat) :
  k <= length A -> k <= length B -> align (skipn k A) (skipn k B) = skipn k (align A B).
Proof.
  intros HA HB. unfold align. rewrite !skipn_length.
  destruct (Nat.eq_dec (Nat.min (length A - k) (length B - k)) 0) as [H0|Hn].
  - transitivity (@nil (list T)).
    + apply length_zero_iff_nil. rewrite hstack_length. unfold last_rows. rewrite H0. cbn [Nat.eqb].
      rewrite !skipn_length. exact H0.
    + symmetry. apply length_zero_iff_nil. rewrite skipn_length.
      fold (align A B). rewrite align_length. lia.
  - rewrite !last_rows_skipn by lia. rewrite !skipn_length, skipn_hstack, !skipn_skipn'.
    f_equal; f_equal; lia.
Qed.

Lemma align_suffix a b (A B : mat) :
  length A = length B -> Nat.max a b < length A ->
  align (skipn a A) (skipn b B) = skipn (Nat.max a b) (hstack A B).
Proof.
  intros HL Hm. unfold align. rewrite !skipn_length.
  rewrite !last_rows_skipn by lia. rewrite !skipn_length, skipn_hstack, !skipn_skipn'.
  f_equal; f_equal; lia.
Qed.

Lemma align_nil_iff (A B : mat) : align A B = [] <-> (A = [] \/ B = []).
Proof.
  rewrite <- !length_zero_iff_nil, align_length. lia.
Qed.
End Align.

Section RT.
Variable T : Type.
Variable O : ops T.
Variable inrange : T -> Prop.
Hypothesis H_atan : forall x, inrange x -> op_atan2 O (op_sin O x) (op_cos O x) = x.
Hypothesis H_sk : forall id c x, op_sk_inv O id c (op_sk_fwd O id c x) = x.
Hypothesis H_mul1l : forall x, op_mul O (op_t1 O) x = x.
Hypothesis H_mul1r : forall x, op_mul O x (op_t1 O) = x.
Notation stage := (stage T).
Notation chain := (chain T).
Notation mat := (list (list T)).
Notation dmat := (dmat T).

Local Ltac rlia := unfold Episodes.row in *; lia.

(* ------------------------------------------------------------ transform commutes with suffixes *)
Definition skip_stage (s : stage) : Prop :=
  forall d k (E : mat), samples_in s 1 + k <= length E ->
    tf_ep O s d (skipn k E) = skipn k (tf_ep O s d E).
Definition skip_chain (c : chain) : Prop :=
  forall d k (E : mat), csamples_in c 1 + k <= length E ->
    ctf_ep O c d (skipn k E) = skipn k (ctf_ep O c d E).

Lemma skip_cons_step (s : stage) (c : chain) :
  skip_stage s -> skip_chain c -> skip_chain (CCons s c).
Proof.
  intros IHs IHc d k E H. rewrite !ctf_ep_cons. rewrite csamples_in_cons in H.
  pose proof (samples_in_additive s (csamples_in c 1)) as Ha.
  pose proof (csamples_in_ge c 1) as Hg. pose proof (samples_in_ge s 1) as Hg1.
  rewrite IHs by lia. apply IHc. rewrite (tf_ep_count O s) by lia. lia.
Qed.

Theorem tf_ep_skipn : forall s, skip_stage s.
Proof.
  apply (stage_mut skip_stage skip_chain).
  - intros l d k E H. rewrite !tf_ep_leaf. rewrite samples_in_leaf in H.
    destruct l; cbn [leaf_ep]; try (symmetry; apply skipn_map).
    cbn [leaf_samples_in] in H. symmetry. apply skipn_delay_ep. lia.
  - intros xs IHx us IHu d k E H. rewrite !tf_ep_split. rewrite samples_in_split in H.
    rewrite <- !skipn_map.
    rewrite IHx, IHu by (rewrite map_length; lia).
    apply align_skipn; rewrite (ctf_ep_count O) by (rewrite map_length; lia); rewrite map_length; lia.
  - intros c IHc d k E H. rewrite !tf_ep_pipe. rewrite samples_in_pipe in H. apply IHc. exact H.
  - intros d k E _. reflexivity.
  - intros s IHs c IHc. apply skip_cons_step; assumption.
Qed.

Theorem ctf_ep_skipn : forall c, skip_chain c.
Proof.
  intros c d k E H. apply (tf_ep_skipn (Pipe c) d k E). rewrite samples_in_pipe. exact H.
Qed.

(* ------------------------------------------------------------ the lag is below min_samples *)
Definition lagle_stage (s : stage) : Prop := lag s + 1 <= samples_in s 1.
Definition lagle_chain (c : chain) : Prop := clag c + 1 <= csamples_in c 1.

Theorem lag_lt_samples : forall s, lagle_stage s.
Proof.
  apply (stage_mut lagle_stage lagle_chain); unfold lagle_stage, lagle_chain.
  - intros l. rewrite lag_leaf, samples_in_leaf. destruct l; cbn [leaf_lag leaf_samples_in]; lia.
  - intros xs IHx us IHu. rewrite lag_split, samples_in_split. lia.
  - intros c IHc. rewrite lag_pipe, samples_in_pipe. exact IHc.
  - rewrite clag_nil, csamples_in_nil. lia.
  - intros s IHs c IHc. rewrite clag_cons, csamples_in_cons.
    pose proof (samples_in_additive s (csamples_in c 1)). lia.
Qed.

Lemma clag_lt_samples (c : chain) : clag c + 1 <= csamples_in c 1.
Proof. pose proof (lag_lt_samples (Pipe c)) as H. unfold lagle_stage in H. rewrite lag_pipe, samples_in_pipe in H. exact H. Qed.

(* lag = 0 : delays with dx = du everywhere and balanced splits *)
Definition lag0_stage (s : stage) : Prop := balanced s = true -> lag s = 0.
Definition lag0_chain (c : chain) : Prop := cbalanced c = true -> clag c = 0.

Theorem lag_balanced : forall s, lag0_stage s.
Proof.
  apply (stage_mut lag0_stage lag0_chain); unfold lag0_stage, lag0_chain.
  - intros l H. rewrite lag_leaf. destruct l; cbn [leaf_lag]; try reflexivity.
    rewrite balanced_leaf in H. cbn [leaf_balanced] in H. apply Nat.eqb_eq in H. lia.
  - intros xs IHx us IHu H. rewrite balanced_split in H.
    apply andb_prop in H. destruct H as [H He]. apply andb_prop in H. destruct H as [Hx Hu].
    apply Nat.eqb_eq in He. rewrite lag_split, (IHx Hx), (IHu Hu). lia.
  - intros c IHc H. rewrite lag_pipe. rewrite balanced_pipe in H. apply IHc. exact H.
  - intros _. reflexivity.
  - intros s IHs c IHc H. rewrite cbalanced_cons in H. apply andb_prop in H. destruct H as [Hs Hc].
    rewrite clag_cons, (IHs Hs), (IHc Hc). reflexivity.
Qed.

(* ------------------------------------------------------------ angles_ok on a suffix *)
Definition angsk_stage (s : stage) : Prop :=
  forall d k (E : mat), samples_in s 1 + k <= length E ->
    angles_ok O inrange s d E -> angles_ok O inrange s d (skipn k E).
Definition angsk_chain (c : chain) : Prop :=
  forall d k (E : mat), csamples_in c 1 + k <= length E ->
    cangles_ok O inrange c d E -> cangles_ok O inrange c d (skipn k E).

Theorem angles_ok_skipn : forall s, angsk_stage s.
Proof.
  apply (stage_mut angsk_stage angsk_chain).
  - intros l d k E _ H. rewrite angles_ok_leaf in *.
    destruct l; cbn [leaf_angles_ok] in *; try exact I.
    intros r Hr. apply H. eapply In_skipn; exact Hr.
  - intros xs IHx us IHu d k E Hl H. rewrite angles_ok_split in *. rewrite samples_in_split in Hl.
    destruct H as [Hx Hu]. rewrite <- !skipn_map. split.
    + apply IHx; [rewrite map_length; lia|exact Hx].
    + apply IHu; [rewrite map_length; lia|exact Hu].
  - intros c IHc d k E Hl H. rewrite angles_ok_pipe in *. rewrite samples_in_pipe in Hl. apply IHc; assumption.
  - intros d k E _ _. exact I.
  - intros s IHs c IHc d k E Hl H. rewrite cangles_ok_cons in *. rewrite csamples_in_cons in Hl.
    pose proof (samples_in_additive s (csamples_in c 1)) as Ha.
    pose proof (csamples_in_ge c 1) as Hg. pose proof (samples_in_ge s 1) as Hg1.
    destruct H as [Hs Hc]. split.
    + apply IHs; [lia|exact Hs].
    + rewrite (tf_ep_skipn s) by lia. apply IHc; [|exact Hc].
      rewrite (tf_ep_count O s) by lia. lia.
Qed.

Lemma cangles_ok_skipn (c : chain) d k (E : mat) :
  csamples_in c 1 + k <= length E ->
  cangles_ok O inrange c d E -> cangles_ok O inrange c d (skipn k E).
Proof.
  intros Hl H. pose proof (angles_ok_skipn (Pipe c) d k E) as P.
  rewrite samples_in_pipe, !angles_ok_pipe in P. apply P; assumption.
Qed.

(* ------------------------------------------------------------ shape of a split transform *)
Lemma wf_split_inv (xs us : chain) ns nu :
  wf (Split xs us) (ns, nu) = true ->
  cwf xs (ns, 0) = true /\ cwf us (0, nu) = true
  /\ snd (cdims xs (ns, 0)) = 0 /\ fst (cdims us (0, nu)) = 0.
Proof.
  intros Hwf. rewrite wf_split in Hwf. cbn [fst snd] in Hwf.
  apply andb_prop in Hwf. destruct Hwf as [Hwf Hu0].
  apply andb_prop in Hwf. destruct Hwf as [Hwf Hx0].
  apply andb_prop in Hwf. destruct Hwf as [Hwx Hwu].
  apply Nat.eqb_eq in Hx0. apply Nat.eqb_eq in Hu0. repeat split; assumption.
Qed.

Lemma wid_scols' ns nu (E : mat) : wid (ns + nu) E -> wid ns (map (firstn ns) E).
Proof. intros H. eapply wid_map; [|exact H]. intros r Hr. eapply firstn_length_exact; eauto. Qed.

Lemma tf_split_rep (xs us : chain) ns nu (E : mat) :
  Nat.max (csamples_in xs 1) (csamples_in us 1) <= length E ->
  tf_ep O (Split xs us) (ns, nu) E
  = hstack (ctf_ep O xs (ns, 0)
              (skipn (Nat.max (csamples_in xs 1) (csamples_in us 1) - csamples_in xs 1) (map (firstn ns) E)))
           (ctf_ep O us (0, nu)
              (skipn (Nat.max (csamples_in xs 1) (csamples_in us 1) - csamples_in us 1) (map (skipn ns) E))).
Proof.
  intros Hl. rewrite tf_ep_split. cbn [fst snd]. unfold align.
  pose proof (csamples_in_ge xs 1) as Hgx. pose proof (csamples_in_ge us 1) as Hgu.
  rewrite !(ctf_ep_count O) by (rewrite map_length; lia). rewrite !map_length.
  rewrite !last_rows_skipn by lia.
  rewrite !(ctf_ep_count O) by (rewrite map_length; lia). rewrite !map_length.
  rewrite !(ctf_ep_skipn) by (rewrite map_length; lia).
  f_equal; f_equal; lia.
Qed.

(* ------------------------------------------------------------ MAIN: the round trip *)
Definition rt_stage (s : stage) : Prop :=
  forall d (E : mat), wf s d = true -> no_unwrap s = true -> wid (fst d + snd d) E ->
    angles_ok O inrange s d E -> samples_in s 1 <= length E ->
    itf_ep O s d (tf_ep O s d E) = skipn (lag s) E.
Definition rt_chain (c : chain) : Prop :=
  forall d (E : mat), cwf c d = true -> cno_unwrap c = true -> wid (fst d + snd d) E ->
    cangles_ok O inrange c d E -> csamples_in c 1 <= length E ->
    citf_ep O c d (ctf_ep O c d E) = skipn (clag c) E.

Lemma rt_cons_step (s : stage) (c : chain) : rt_stage s -> rt_chain c -> rt_chain (CCons s c).
Proof.
  intros IHs IHc d E Hwf Hnu Hw Ha Hl.
  rewrite cwf_cons in Hwf. apply andb_prop in Hwf. destruct Hwf as [Hws Hwc].
  rewrite cno_unwrap_cons in Hnu. apply andb_prop in Hnu. destruct Hnu as [Hns Hnc].
  rewrite cangles_ok_cons in Ha. destruct Ha as [Has Hac].
  rewrite csamples_in_cons in Hl.
  pose proof (samples_in_additive s (csamples_in c 1)) as Hadd.
  pose proof (csamples_in_ge c 1) as Hg. pose proof (samples_in_ge s 1) as Hg1.
  pose proof (clag_lt_samples c) as Hlc.
  rewrite ctf_ep_cons, citf_ep_cons, clag_cons.
  rewrite IHc.
  - rewrite <- (tf_ep_skipn s) by lia.
    rewrite IHs.
    + rewrite skipn_skipn'. f_equal. lia.
    + exact Hws.
    + exact Hns.
    + apply wid_skipn. exact Hw.
    + apply angles_ok_skipn; [lia|exact Has].
    + rewrite skipn_length. lia.
  - exact Hwc.
  - exact Hnc.
  - apply (tf_ep_width O s d Hws). exact Hw.
  - exact Hac.
  - rewrite (tf_ep_count O s) by lia. lia.
Qed.

Theorem roundtrip_spec : forall s, rt_stage s.
Proof.
  apply (stage_mut rt_stage rt_chain).
  - (* leaf *)
    intros l d E Hwf Hnu Hw Ha Hl. rewrite tf_ep_leaf, itf_ep_leaf, lag_leaf.
    rewrite wf_leaf in Hwf. rewrite angles_ok_leaf in Ha. rewrite samples_in_leaf in Hl.
    apply (leaf_ep_rt O inrange H_atan H_sk H_mul1l H_mul1r); assumption.
  - (* split *)
    intros xs IHx us IHu [ns nu] E Hwf Hnu Hw Ha Hl. cbn [fst snd] in *.
    destruct (wf_split_inv _ _ _ _ Hwf) as [Hwx [Hwu [Hx0 Hu0]]].
    rewrite no_unwrap_split in Hnu. apply andb_prop in Hnu. destruct Hnu as [Hnx Hnuu].
    rewrite angles_ok_split in Ha. cbn [fst snd] in Ha. destruct Ha as [Hax Hau].
    rewrite samples_in_split in Hl.
    pose proof (csamples_in_ge xs 1) as Hgx. pose proof (csamples_in_ge us 1) as Hgu.
    pose proof (clag_lt_samples xs) as Hlx. pose proof (clag_lt_samples us) as Hlu.
    rewrite tf_split_rep by exact Hl. rewrite itf_ep_split, sdims_split, lag_split. cbn [fst snd].
    set (sx := csamples_in xs 1) in *. set (su := csamples_in us 1) in *.
    set (Es := map (firstn ns) E). set (Eu := map (skipn ns) E).
    assert (HlEs : length Es = length E) by (unfold Es; apply map_length).
    assert (HlEu : length Eu = length E) by (unfold Eu; apply map_length).
    assert (HwEs : wid ns Es) by (unfold Es; eapply wid_scols'; exact Hw).
    assert (HwEu : wid nu Eu) by (unfold Eu; eapply wid_icols; exact Hw).
    set (A := ctf_ep O xs (ns, 0) (skipn (Nat.max sx su - sx) Es)).
    set (B := ctf_ep O us (0, nu) (skipn (Nat.max sx su - su) Eu)).
    assert (HwA : wid (fst (cdims xs (ns, 0))) A).
    { pose proof (@ctf_ep_width _ O xs (ns, 0) (skipn (Nat.max sx su - sx) Es) Hwx) as H.
      unfold dsum in H. cbn [fst snd] in H. rewrite Hx0, !Nat.add_0_r in H.
      apply H. apply wid_skipn. exact HwEs. }
    assert (HlA : length A = length E + 1 - Nat.max sx su).
    { unfold A. rewrite (ctf_ep_count O) by (rewrite skipn_length; fold sx; lia).
      rewrite skipn_length. fold sx. lia. }
    assert (HlB : length B = length E + 1 - Nat.max sx su).
    { unfold B. rewrite (ctf_ep_count O) by (rewrite skipn_length; fold su; lia).
      rewrite skipn_length. fold su. lia. }
    rewrite (hstack_firstn_cols _ HwA) by lia.
    rewrite (hstack_skipn_cols _ HwA) by lia.
    unfold A, B.
    rewrite IHx; [|exact Hwx|exact Hnx|cbn [fst snd]; rewrite Nat.add_0_r; apply wid_skipn; exact HwEs
                  |apply cangles_ok_skipn; [fold sx; lia|exact Hax]
                  |rewrite skipn_length; fold sx; lia].
    rewrite IHu; [|exact Hwu|exact Hnuu|cbn [fst snd Nat.add]; apply wid_skipn; exact HwEu
                  |apply cangles_ok_skipn; [fold su; lia|exact Hau]
                  |rewrite skipn_length; fold su; lia].
    rewrite !skipn_skipn'.
    rewrite align_suffix by lia.
    unfold Es, Eu. rewrite hstack_cols. f_equal. lia.
  - (* pipe *)
    intros c IHc d E Hwf Hnu Hw Ha Hl. rewrite tf_ep_pipe, itf_ep_pipe, lag_pipe.
    rewrite no_unwrap_pipe in Hnu. rewrite wf_pipe in Hwf. rewrite angles_ok_pipe in Ha. rewrite samples_in_pipe in Hl.
    apply IHc; assumption.
  - (* nil *)
    intros d E _ _ _ _ _. reflexivity.
  - (* cons *)
    intros s IHs c IHc. apply rt_cons_step; assumption.
Qed.

Theorem roundtrip_spec_chain : forall c, rt_chain c.
Proof.
  intros c d E Hwf Hnu Hw Ha Hl.
  pose proof (roundtrip_spec (Pipe c)) as H. unfold rt_stage in H. specialize (H d E).
  rewrite tf_ep_pipe, itf_ep_pipe, lag_pipe, wf_pipe, no_unwrap_pipe, angles_ok_pipe, samples_in_pipe in H.
  apply H; assumption.
Qed.

(* with dx = du in every delay and balanced splits nothing is lost *)
Corollary roundtrip_spec_balanced (s : stage) d (E : mat) :
  wf s d = true -> no_unwrap s = true -> balanced s = true -> wid (fst d + snd d) E ->
  angles_ok O inrange s d E -> samples_in s 1 <= length E ->
  itf_ep O s d (tf_ep O s d E) = E.
Proof.
  intros Hwf Hnu Hb Hw Ha Hl. rewrite roundtrip_spec by assumption.
  rewrite (lag_balanced s Hb). reflexivity.
Qed.

(* ------------------------------------------------------------ ALSO: the state prefix *)
(* the declared number of lifted states never shrinks *)
Definition fstge_stage (s : stage) : Prop := forall d, wf s d = true -> fst d <= fst (sdims s d).
Definition fstge_chain (c : chain) : Prop := forall d, cwf c d = true -> fst d <= fst (cdims c d).

Lemma sdims_fst_ge : forall s, fstge_stage s.
Proof.
  apply (stage_mut fstge_stage fstge_chain).
  - intros l [ns nu] Hwf. rewrite sdims_leaf. rewrite wf_leaf in Hwf. cbn [fst].
    apply leaf_dims_fst_ge. exact Hwf.
  - intros xs IHx us _ [ns nu] Hwf. destruct (wf_split_inv _ _ _ _ Hwf) as [Hwx _].
    rewrite sdims_split. cbn [fst snd]. apply (IHx (ns, 0) Hwx).
  - intros c IHc d Hwf. rewrite wf_pipe in Hwf. rewrite sdims_pipe. apply IHc. exact Hwf.
  - intros d _. rewrite cdims_nil. lia.
  - intros s IHs c IHc d Hwf. rewrite cwf_cons in Hwf. apply andb_prop in Hwf. destruct Hwf as [Hs Hc].
    rewrite cdims_cons. specialize (IHs d Hs). specialize (IHc (sdims s d) Hc). lia.
Qed.

Lemma cdims_fst_ge (c : chain) d : cwf c d = true -> fst d <= fst (cdims c d).
Proof.
  intros H. pose proof (sdims_fst_ge (Pipe c)) as P. unfold fstge_stage in P. specialize (P d).
  rewrite wf_pipe, sdims_pipe in P. apply P. exact H.
Qed.

Lemma map_firstn_le ns w (M : mat) : ns <= w -> map (firstn ns) (map (firstn w) M) = map (firstn ns) M.
Proof.
  intros H. rewrite map_map. apply map_ext. intros r. rewrite firstn_firstn. f_equal. lia.
Qed.

Definition sp_stage (s : stage) : Prop :=
  forall d (E : mat), wf s d = true -> no_preproc s = true -> wid (fst d + snd d) E ->
    samples_in s 1 <= length E ->
    map (firstn (fst d)) (tf_ep O s d E) = map (firstn (fst d)) (skipn (samples_in s 1 - 1) E).
Definition sp_chain (c : chain) : Prop :=
  forall d (E : mat), cwf c d = true -> cno_preproc c = true -> wid (fst d + snd d) E ->
    csamples_in c 1 <= length E ->
    map (firstn (fst d)) (ctf_ep O c d E) = map (firstn (fst d)) (skipn (csamples_in c 1 - 1) E).

Theorem state_prefix_spec : forall s, sp_stage s.
Proof.
  apply (stage_mut sp_stage sp_chain).
  - (* leaf *)
    intros l [ns nu] E Hwf Hnp Hw Hl. cbn [fst snd] in *.
    rewrite tf_ep_leaf, samples_in_leaf. rewrite wf_leaf in Hwf. rewrite no_preproc_leaf in Hnp.
    rewrite samples_in_leaf in Hl.
    assert (Hrow : (match l with LDelay _ _ _ => False | _ => True end) ->
                   map (firstn ns) (map (leaf_row O l (ns, nu)) E) = map (firstn ns) E).
    { intros Hk. rewrite map_map. apply map_ext_in. intros r Hr.
      apply (leaf_row_state_id O H_mul1l H_mul1r); [exact Hk|exact Hnp|exact Hwf|apply Hw; exact Hr]. }
    destruct l as [powers| | |dx du|id centers|id nf|id|feats uw];
      try (cbn [leaf_ep leaf_samples_in Nat.sub skipn]; apply Hrow; exact I).
    cbn [leaf_ep leaf_samples_in] in *.
    replace (1 + Nat.max dx du - 1) with (Nat.max dx du) by lia.
    apply (@delay_ep_state T (ns, nu)); [exact Hw|lia].
  - (* split *)
    intros xs IHx us _ [ns nu] E Hwf Hnp Hw Hl. cbn [fst snd] in *.
    destruct (wf_split_inv _ _ _ _ Hwf) as [Hwx [Hwu [Hx0 Hu0]]].
    rewrite no_preproc_split in Hnp. apply andb_prop in Hnp. destruct Hnp as [Hnx _].
    rewrite samples_in_split in *.
    pose proof (csamples_in_ge xs 1) as Hgx. pose proof (csamples_in_ge us 1) as Hgu.
    rewrite tf_split_rep by exact Hl.
    set (sx := csamples_in xs 1) in *. set (su := csamples_in us 1) in *.
    set (Es := map (firstn ns) E). set (Eu := map (skipn ns) E).
    assert (HlEs : length Es = length E) by (unfold Es; apply map_length).
    assert (HlEu : length Eu = length E) by (unfold Eu; apply map_length).
    assert (HwEs : wid ns Es) by (unfold Es; eapply wid_scols'; exact Hw).
    set (A := ctf_ep O xs (ns, 0) (skipn (Nat.max sx su - sx) Es)).
    set (B := ctf_ep O us (0, nu) (skipn (Nat.max sx su - su) Eu)).
    assert (HwA : wid (fst (cdims xs (ns, 0))) A).
    { pose proof (@ctf_ep_width _ O xs (ns, 0) (skipn (Nat.max sx su - sx) Es) Hwx) as H.
      unfold dsum in H. cbn [fst snd] in H. rewrite Hx0, !Nat.add_0_r in H.
      apply H. apply wid_skipn. exact HwEs. }
    assert (HlA : length A = length E + 1 - Nat.max sx su).
    { unfold A. rewrite (ctf_ep_count O) by (rewrite skipn_length; fold sx; lia).
      rewrite skipn_length. fold sx. lia. }
    assert (HlB : length B = length E + 1 - Nat.max sx su).
    { unfold B. rewrite (ctf_ep_count O) by (rewrite skipn_length; fold su; lia).
      rewrite skipn_length. fold su. lia. }
    rewrite (map_firstn_hstack_le B HwA) by (try (apply (cdims_fst_ge xs (ns, 0) Hwx)); lia).
    unfold A.
    pose proof (IHx (ns, 0) (skipn (Nat.max sx su - sx) Es) Hwx Hnx) as P. cbn [fst snd] in P.
    rewrite P; [|rewrite Nat.add_0_r; apply wid_skipn; exact HwEs|rewrite skipn_length; fold sx; lia].
    fold sx. rewrite skipn_skipn'. unfold Es. rewrite skipn_map, map_firstn_le by lia.
    f_equal. f_equal. lia.
  - (* pipe *)
    intros c IHc d E Hwf Hnp Hw Hl. rewrite tf_ep_pipe, samples_in_pipe.
    rewrite wf_pipe in Hwf. rewrite no_preproc_pipe in Hnp. rewrite samples_in_pipe in Hl.
    apply IHc; assumption.
  - (* nil *)
    intros d E _ _ _ _. rewrite ctf_ep_nil, csamples_in_nil. reflexivity.
  - (* cons *)
    intros s IHs c IHc d E Hwf Hnp Hw Hl.
    rewrite cwf_cons in Hwf. apply andb_prop in Hwf. destruct Hwf as [Hws Hwc].
    rewrite cno_preproc_cons in Hnp. apply andb_prop in Hnp. destruct Hnp as [Hps Hpc].
    rewrite csamples_in_cons in *.
    pose proof (samples_in_additive s (csamples_in c 1)) as Hadd.
    pose proof (csamples_in_ge c 1) as Hg. pose proof (samples_in_ge s 1) as Hg1.
    pose proof (sdims_fst_ge s d Hws) as Hge.
    rewrite ctf_ep_cons.
    rewrite <- (map_firstn_le (ctf_ep O c (sdims s d) (tf_ep O s d E)) Hge).
    rewrite IHc; [|exact Hwc|exact Hpc|apply (tf_ep_width O s d Hws); exact Hw
                  |rewrite (tf_ep_count O s) by lia; lia].
    rewrite map_firstn_le by exact Hge.
    rewrite <- skipn_map, IHs by (try assumption; lia).
    rewrite skipn_map, skipn_skipn'. f_equal. f_equal. lia.
Qed.

Theorem state_prefix_spec_chain : forall c, sp_chain c.
Proof.
  intros c d E Hwf Hnp Hw Hl.
  pose proof (state_prefix_spec (Pipe c)) as H. unfold sp_stage in H. specialize (H d E).
  rewrite tf_ep_pipe, wf_pipe, no_preproc_pipe, samples_in_pipe in H.
  apply H; assumption.
Qed.

End RT.
