(* Bridge for the episode utilities (C03, C05, C08): the per-episode functions REGENERATED from
   shift_episodes / extract_initial_conditions / extract_input / strip_initial_conditions
   (Gen/EpisodesGen.v, numpy slice semantics) are the per-episode functions of the model
   (Episodes.v), to which the theorems about map_episodes apply. *)
From Coq Require Import List ZArith Arith Bool Lia.
From PK Require Import PyList SliceLib Episodes.
From PK.Gen Require Import EpisodesGen.
Import ListNotations.

Section Bridge.
Variable T : Type.
Implicit Types (E : list (list T)) (r : list T).

Lemma norm_idx_neg : forall len k, norm_idx len (- Z.of_nat k) = if Nat.eqb k 0 then 0 else len - k.
Proof.
  intros len k. unfold norm_idx. destruct (Nat.eqb_spec k 0) as [->|Hk].
  - cbn. destruct len; reflexivity.
  - destruct (Z.ltb_spec (- Z.of_nat k) 0); lia.
Qed.

Lemma norm_idx_nonneg : forall len k, norm_idx len (Z.of_nat k) = Nat.min k len.
Proof. intros len k. unfold norm_idx. destruct (Z.ltb_spec (Z.of_nat k) 0); lia. Qed.

Lemma oslice_to : forall (A : Type) (l : list A) k, oslice None (Some (Z.of_nat k)) l = firstn k l.
Proof.
  intros A l k. unfold oslice. rewrite norm_idx_nonneg, Nat.sub_0_r. cbn [skipn].
  destruct (Nat.le_ge_cases k (length l)) as [H|H].
  - now rewrite Nat.min_l.
  - rewrite Nat.min_r by exact H. now rewrite !firstn_all2 by lia.
Qed.

Lemma oslice_from : forall (A : Type) (l : list A) k, oslice (Some (Z.of_nat k)) None l = skipn k l.
Proof.
  intros A l k. unfold oslice. rewrite norm_idx_nonneg.
  destruct (Nat.le_ge_cases k (length l)) as [H|H].
  - rewrite Nat.min_l by exact H. apply firstn_all2. rewrite skipn_length. lia.
  - rewrite Nat.min_r by exact H. rewrite !skipn_all2 by lia. now destruct (length l - length l).
Qed.

Lemma oslice_drop : forall (A : Type) (l : list A) k, k <> 0 ->
  oslice None (Some (- Z.of_nat k)%Z) l = firstn (length l - k) l.
Proof.
  intros A l k Hk. unfold oslice. rewrite norm_idx_neg.
  destruct (Nat.eqb_spec k 0); [contradiction|]. now rewrite Nat.sub_0_r.
Qed.

(* shift_episodes *)
Lemma gen_shift_unshifted_model : forall nu E, gen_shift_unshifted_ep T nu E = unshift_ep E.
Proof.
  intros nu E. unfold gen_shift_unshifted_ep, slice_rows, unshift_ep, drop_last.
  apply (oslice_drop _ E 1). discriminate.
Qed.

Lemma tl_skipn1 : forall (A : Type) (l : list A), skipn 1 l = tl l.
Proof. intros A [|a l]; reflexivity. Qed.

Lemma gen_shift_shifted_model : forall nu E, gen_shift_shifted_ep T nu E = shift_ep nu E.
Proof.
  intros nu E. unfold gen_shift_shifted_ep, shift_ep, slice_rows, slice_cols.
  change (Some 1%Z) with (Some (Z.of_nat 1)). rewrite oslice_from, tl_skipn1.
  destruct (Nat.eqb_spec nu 0) as [->|Hn].
  - transitivity (map (fun r : list T => r) (tl E)); [symmetry; apply map_id | apply map_ext; intros r; reflexivity].
  - apply map_ext. intros r. unfold cols_but_last. destruct (Nat.eqb_spec nu 0); [contradiction|].
    now apply (oslice_drop _ r nu).
Qed.

(* extract_initial_conditions *)
Lemma gen_extract_ic_model : forall w nu E,
  gen_extract_ic_ep T w nu E = map (cols_but_last nu) (firstn w E).
Proof.
  intros w nu E. unfold gen_extract_ic_ep, slice_rows, slice_cols. rewrite oslice_to.
  destruct (Nat.eqb_spec nu 0) as [->|Hn].
  - transitivity (map (fun r : list T => r) (firstn w E)); [symmetry; apply map_id | apply map_ext; intros r; reflexivity].
  - apply map_ext. intros r. unfold cols_but_last. destruct (Nat.eqb_spec nu 0); [contradiction|].
    now apply (oslice_drop _ r nu).
Qed.

(* extract_input: the code takes n_states from the width of the episode, the model from each row;
   they agree on rectangular episodes *)
Lemma gen_extract_input_model : forall nu E, (forall r, In r E -> length r = width E) ->
  gen_extract_input_ep T nu E = map (fun r => if Nat.eqb nu 0 then [] else skipn (length r - nu) r) E.
Proof.
  intros nu E Hrect. unfold gen_extract_input_ep, slice_cols.
  destruct (Nat.eqb nu 0); [reflexivity|].
  apply map_ext_in. intros r Hr. rewrite oslice_from, (Hrect r Hr). reflexivity.
Qed.

(* strip_initial_conditions *)
Lemma gen_strip_ic_model : forall w E, gen_strip_ic_ep T w E = skipn w E.
Proof. intros w E. unfold gen_strip_ic_ep, slice_rows. apply oslice_from. Qed.

End Bridge.

(* ---------- lifted to whole data matrices: the generated per-episode functions under the
   split / apply / combine frame ARE the model's utilities *)
Section Whole.
Variable T : Type.

Lemma map_episodes_ext : forall (ep : bool) (g h : list (list T) -> list (list T)) (X : dmat T),
  (forall E, g E = h E) -> map_episodes ep g X = map_episodes ep h X.
Proof.
  intros ep g h X H. unfold map_episodes. f_equal. apply map_ext. intros e. now rewrite H.
Qed.

Theorem gen_shift_episodes_model : forall (ep : bool) nu (X : dmat T),
  shift_episodes ep nu X
  = (map_episodes ep (gen_shift_unshifted_ep T nu) X, map_episodes ep (gen_shift_shifted_ep T nu) X).
Proof.
  intros. unfold shift_episodes. f_equal; apply map_episodes_ext; intros E; symmetry;
  [apply gen_shift_unshifted_model | apply gen_shift_shifted_model].
Qed.

Theorem gen_extract_ic_episodes_model : forall (ep : bool) w nu (X : dmat T),
  extract_ic ep w nu X = map_episodes ep (gen_extract_ic_ep T w nu) X.
Proof.
  intros. unfold extract_ic. apply map_episodes_ext. intros E. symmetry. apply gen_extract_ic_model.
Qed.

Theorem gen_strip_ic_episodes_model : forall (ep : bool) w (X : dmat T),
  strip_ic ep w X = map_episodes ep (gen_strip_ic_ep T w) X.
Proof.
  intros. unfold strip_ic. apply map_episodes_ext. intros E. symmetry. apply gen_strip_ic_model.
Qed.

End Whole.
