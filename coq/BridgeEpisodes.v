(* Bridge for the episode utilities (C03, C05, C08): the per-episode functions REGENERATED from
   shift_episodes / extract_initial_conditions / extract_input / strip_initial_conditions
   (Gen/EpisodesGen.v, numpy slice semantics) are the per-episode functions of the model
   (Episodes.v), to which the theorems about map_episodes apply. *)
From Coq Require Import List ZArith NArith Nnat Arith Bool Lia.
From PK Require Import PyList SliceLib Episodes.
From PK.Gen Require Import EpisodesGen.
Import ListNotations.

Section Bridge.
Variable T : Type.
Implicit Types (E : list (list T)) (r : list T).

Lemma norm_idx_neg : forall len k, norm_idx len (- Z.of_nat k) = if Nat.eqb k 0 then 0 else len - k.
Proof.
  intros len k. unfold norm_idx. destruct (Nat.eqb_spec k 0) as [->|Hk].
  - cbn. destruct len; reflexivity.
  - destruct (Z.ltb_spec (- Z.of_nat k) 0); lia.
Qed.

Lemma norm_idx_nonneg : forall len k, norm_idx len (Z.of_nat k) = Nat.min k len.
Proof. intros len k. unfold norm_idx. destruct (Z.ltb_spec (Z.of_nat k) 0); lia. Qed.

Lemma oslice_to : forall (A : Type) (l : list A) k, oslice None (Some (Z.of_nat k)) l = firstn k l.
Proof.
  intros A l k. unfold oslice. rewrite norm_idx_nonneg, Nat.sub_0_r. cbn [skipn].
  destruct (Nat.le_ge_cases k (length l)) as [H|H].
  - now rewrite Nat.min_l.
  - rewrite Nat.min_r by exact H. now rewrite !firstn_all2 by lia.
Qed.

Lemma oslice_from : forall (A : Type) (l : list A) k, oslice (Some (Z.of_nat k)) None l = skipn k l.
Proof.
  intros A l k. unfold oslice. rewrite norm_idx_nonneg.
  destruct (Nat.le_ge_cases k (length l)) as [H|H].
  - rewrite Nat.min_l by exact H. apply firstn_all2. rewrite skipn_length. lia.
  - rewrite Nat.min_r by exact H. rewrite !skipn_all2 by lia. now destruct (length l - length l).
Qed.

Lemma oslice_drop : forall (A : Type) (l : list A) k, k <> 0 ->
  oslice None (Some (- Z.of_nat k)%Z) l = firstn (length l - k) l.
Proof.
  intros A l k Hk. unfold oslice. rewrite norm_idx_neg.
  destruct (Nat.eqb_spec k 0); [contradiction|]. now rewrite Nat.sub_0_r.
Qed.

(* shift_episodes *)
Lemma gen_shift_unshifted_model : forall nu E, gen_shift_unshifted_ep T nu E = unshift_ep E.
Proof.
  intros nu E. unfold gen_shift_unshifted_ep, slice_rows, unshift_ep, drop_last.
  apply (oslice_drop _ E 1). discriminate.
Qed.

Lemma tl_skipn1 : forall (A : Type) (l : list A), skipn 1 l = tl l.
Proof. intros A [|a l]; reflexivity. Qed.

Lemma gen_shift_shifted_model : forall nu E, gen_shift_shifted_ep T nu E = shift_ep nu E.
Proof.
  intros nu E. unfold gen_shift_shifted_ep, shift_ep, slice_rows, slice_cols.
  change (Some 1%Z) with (Some (Z.of_nat 1)). rewrite oslice_from, tl_skipn1.
  destruct (Nat.eqb_spec nu 0) as [->|Hn].
  - transitivity (map (fun r : list T => r) (tl E)); [symmetry; apply map_id | apply map_ext; intros r; reflexivity].
  - apply map_ext. intros r. unfold cols_but_last. destruct (Nat.eqb_spec nu 0); [contradiction|].
    now apply (oslice_drop _ r nu).
Qed.

(* extract_initial_conditions *)
Lemma gen_extract_ic_model : forall w nu E,
  gen_extract_ic_ep T w nu E = map (cols_but_last nu) (firstn w E).
Proof.
  intros w nu E. unfold gen_extract_ic_ep, slice_rows, slice_cols. rewrite oslice_to.
  destruct (Nat.eqb_spec nu 0) as [->|Hn].
  - transitivity (map (fun r : list T => r) (firstn w E)); [symmetry; apply map_id | apply map_ext; intros r; reflexivity].
  - apply map_ext. intros r. unfold cols_but_last. destruct (Nat.eqb_spec nu 0); [contradiction|].
    now apply (oslice_drop _ r nu).
Qed.

(* extract_input: the code takes n_states from the width of the episode, the model from each row;
   they agree on rectangular episodes *)
Lemma gen_extract_input_model : forall nu E, (forall r, In r E -> length r = width E) ->
  gen_extract_input_ep T nu E = map (fun r => if Nat.eqb nu 0 then [] else skipn (length r - nu) r) E.
Proof.
  intros nu E Hrect. unfold gen_extract_input_ep, slice_cols.
  destruct (Nat.eqb nu 0); [reflexivity|].
  apply map_ext_in. intros r Hr. rewrite oslice_from, (Hrect r Hr). reflexivity.
Qed.

(* strip_initial_conditions *)
Lemma gen_strip_ic_model : forall w E, gen_strip_ic_ep T w E = skipn w E.
Proof. intros w E. unfold gen_strip_ic_ep, slice_rows. apply oslice_from. Qed.

End Bridge.

(* ---------- lifted to whole data matrices: the generated per-episode functions under the
   split / apply / combine frame ARE the model's utilities *)
Section Whole.
Variable T : Type.

Lemma map_episodes_ext : forall (ep : bool) (g h : list (list T) -> list (list T)) (X : dmat T),
  (forall E, g E = h E) -> map_episodes ep g X = map_episodes ep h X.
Proof.
  intros ep g h X H. unfold map_episodes. f_equal. apply map_ext. intros e. now rewrite H.
Qed.

Theorem gen_shift_episodes_model : forall (ep : bool) nu (X : dmat T),
  shift_episodes ep nu X
  = (map_episodes ep (gen_shift_unshifted_ep T nu) X, map_episodes ep (gen_shift_shifted_ep T nu) X).
Proof.
  intros. unfold shift_episodes. f_equal; apply map_episodes_ext; intros E; symmetry;
  [apply gen_shift_unshifted_model | apply gen_shift_shifted_model].
Qed.

Theorem gen_extract_ic_episodes_model : forall (ep : bool) w nu (X : dmat T),
  extract_ic ep w nu X = map_episodes ep (gen_extract_ic_ep T w nu) X.
Proof.
  intros. unfold extract_ic. apply map_episodes_ext. intros E. symmetry. apply gen_extract_ic_model.
Qed.

Theorem gen_strip_ic_episodes_model : forall (ep : bool) w (X : dmat T),
  strip_ic ep w X = map_episodes ep (gen_strip_ic_ep T w) X.
Proof.
  intros. unfold strip_ic. apply map_episodes_ext. intros E. symmetry. apply gen_strip_ic_model.
Qed.

End Whole.

(* ---------- unique_episodes / split_episodes / combine_episodes themselves, as regenerated from the source,
   are the model's uniq / split / combine: the frame every episode utility and every episode-dependent
   lifting function goes through *)
From PK Require Import EpisodesFacts TsvdFacts.
Section Frame.
Variable T : Type.

Lemma fold_max_ge_in : forall (l : list N) x, In x l -> (x <= fold_right N.max 0 l)%N.
Proof. induction l as [|a l IH]; intros x Hx; [destruct Hx|]. destruct Hx as [<-|H]; cbn [fold_right]; [lia|specialize (IH x H); lia]. Qed.

Lemma flatnonzero_bincount_In : forall (l : list N) x, In x (flatnonzero (bincount l)) <-> In x l.
Proof.
  intros l x. unfold flatnonzero. rewrite in_map_iff. split.
  - intros [j [<- Hj]]. apply (find_all_spec _ _ _ 0) in Hj. destruct Hj as [Hlen Hq].
    destruct l as [|a l]; [cbn in Hlen; lia|]. unfold bincount in *. set (L := a :: l) in *.
    rewrite map_length, seq_length in Hlen.
    rewrite (nth_indep _ 0 ((fun i => count_occ N.eq_dec L (N.of_nat i)) 0)) in Hq by (rewrite map_length, seq_length; exact Hlen).
    rewrite (map_nth (fun i => count_occ N.eq_dec L (N.of_nat i))), seq_nth in Hq by exact Hlen. cbn [Nat.add] in Hq.
    apply negb_true_iff, Nat.eqb_neq in Hq. apply (count_occ_In N.eq_dec). lia.
  - intros Hin. exists (N.to_nat x). split; [apply N2Nat.id|].
    destruct l as [|a l]; [destruct Hin|]. unfold bincount. set (L := a :: l) in *.
    assert (Hlen : N.to_nat x < S (N.to_nat (fold_right N.max 0%N L))).
    { pose proof (fold_max_ge_in L x Hin). lia. }
    apply (find_all_spec _ _ _ 0). rewrite map_length, seq_length. split; [exact Hlen|].
    rewrite (nth_indep _ 0 ((fun i => count_occ N.eq_dec L (N.of_nat i)) 0)) by (rewrite map_length, seq_length; exact Hlen).
    rewrite (map_nth (fun i => count_occ N.eq_dec L (N.of_nat i))), seq_nth by exact Hlen. cbn [Nat.add].
    rewrite N2Nat.id. apply negb_true_iff, Nat.eqb_neq. apply (count_occ_In N.eq_dec) in Hin. lia.
Qed.

(* indices returned by find_all are strictly increasing *)
Lemma find_all_from_sorted : forall (A : Type) (q : A -> bool) (l : list A) s,
  ssorted (map N.of_nat (map fst (filter (fun ia => q (snd ia)) (zip (seq s (length l)) l))))
  /\ forall j, In j (map fst (filter (fun ia => q (snd ia)) (zip (seq s (length l)) l))) -> s <= j.
Proof.
  intros A q. induction l as [|a l IH]; intros s; cbn [length seq zip filter map]; [split; [exact I|intros j []]|].
  destruct (IH (S s)) as [Hs Hge]. cbn [snd]. destruct (q a); cbn [map fst].
  - split.
    + cbn [ssorted]. split; [|exact Hs]. intros x Hx. apply in_map_iff in Hx. destruct Hx as [j [<- Hj]].
      specialize (Hge j Hj). lia.
    + intros j [<-|Hj]; [lia|]. specialize (Hge j Hj). lia.
  - split; [exact Hs|]. intros j Hj. specialize (Hge j Hj). lia.
Qed.

Theorem gen_unique_episodes_model : forall (l : list N), gen_unique_episodes l = uniq l.
Proof.
  intros l. unfold gen_unique_episodes. apply ssorted_ext.
  - unfold flatnonzero, find_all. apply (proj1 (find_all_from_sorted _ (fun n => negb (Nat.eqb n 0)) (bincount l) 0)).
  - apply uniq_sorted.
  - intros x. rewrite flatnonzero_bincount_In. symmetry. apply uniq_In.
Qed.

Lemma mask_rows_model : forall i (X : dmat T),
  mask_rows (map (fun l => N.eqb l i) (label_column X)) (data_columns X) = rows_of i X.
Proof.
  intros i X. unfold mask_rows, label_column, data_columns, rows_of.
  induction X as [|[l r] X IH]; [reflexivity|]. cbn [map zip filter fst snd].
  destruct (N.eqb l i); cbn [map snd]; now rewrite IH.
Qed.

Theorem gen_split_episodes_model : forall (ep : bool) (X : dmat T), gen_split_episodes T X ep = split ep X.
Proof.
  intros ep X. unfold gen_split_episodes, split. destruct ep; [|reflexivity].
  cbn zeta. rewrite app_nil_l, gen_unique_episodes_model. apply map_ext. intros i. now rewrite mask_rows_model.
Qed.

Theorem gen_combine_episodes_model : forall (ep : bool) (eps : episodes T), gen_combine_episodes T eps ep = combine ep eps.
Proof.
  intros ep eps. unfold gen_combine_episodes, combine, vstack_list, attach_label. rewrite app_nil_l, flat_map_concat_map.
  f_equal. apply map_ext. intros e. destruct ep; reflexivity.
Qed.

(* hence the idiom of every utility: split, apply per episode (label kept), combine *)
Theorem gen_frame_model : forall (ep : bool) (g : list (list T) -> list (list T)) (X : dmat T),
  gen_combine_episodes T (map (fun e => (fst e, g (snd e))) (gen_split_episodes T X ep)) ep = map_episodes ep g X.
Proof. intros. unfold map_episodes. now rewrite gen_split_episodes_model, gen_combine_episodes_model. Qed.
End Frame.
