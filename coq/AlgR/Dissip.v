(* C11 / C10: time-domain reading of dissipativity (and H-infinity / L2-gain)
   constraints, by induction on the horizon.

   Part A: abstract discrete-time system, one-step dissipation inequality
           implies the summed inequality along every finite trajectory.
   Part B: from the quadratic-form reading of pykoop's dissipativity LMI
           (LmiEdmdDissipativityConstr._create_problem_a) to the one-step
           inequality, in an abstract bilinear setting.                       *)

From Coq Require Import Reals Lra Lia Psatz List.
Import ListNotations.
Local Open Scope R_scope.

(* ================================================================== *)
(* Part A                                                              *)

Section Dissipation.

Variable X W : Type.
Variable step : X -> W -> X.
Variable Vf : X -> R.          (* storage function *)
Variable s : X -> W -> R.      (* supply rate, s x u = s(u, y) with y = C x *)

(* sum of a stage cost g along the trajectory started at x0 driven by us:
     g x0 u0 + g x1 u1 + ... + g x_{N-1} u_{N-1},  x_{k+1} = step x_k u_k *)
Fixpoint traj_sum (g : X -> W -> R) (us : list W) (x : X) : R :=
  match us with
  | [] => 0
  | u :: us' => g x u + traj_sum g us' (step x u)
  end.

(* the list of visited states x0 ... x_{N-1} (for cross-checking traj_sum) *)
Fixpoint traj (us : list W) (x : X) : list X :=
  match us with
  | [] => []
  | u :: us' => x :: traj us' (step x u)
  end.

Lemma traj_length : forall us x, length (traj us x) = length us.
Proof. induction us; intros; cbn; [reflexivity | now rewrite IHus]. Qed.

Lemma traj_sum_combine : forall g us x,
  traj_sum g us x =
  fold_right (fun p acc => g (fst p) (snd p) + acc) 0 (combine (traj us x) us).
Proof.
  induction us as [| u us IH]; intros x; cbn; [reflexivity|].
  now rewrite IH.
Qed.

Lemma traj_sum_app : forall g us vs x,
  traj_sum g (us ++ vs) x = traj_sum g us x + traj_sum g vs (fold_left step us x).
Proof.
  induction us as [| u us IH]; intros vs x; cbn; [lra|].
  rewrite IH. lra.
Qed.

Lemma traj_sum_ext : forall g h,
  (forall x u, g x u = h x u) -> forall us x, traj_sum g us x = traj_sum h us x.
Proof.
  intros g h E. induction us as [| u us IH]; intros x; cbn; [reflexivity|].
  now rewrite E, IH.
Qed.

Lemma traj_sum_plus : forall g h us x,
  traj_sum (fun x u => g x u + h x u) us x = traj_sum g us x + traj_sum h us x.
Proof.
  induction us as [| u us IH]; intros x; cbn; [lra|]. rewrite IH. lra.
Qed.

Lemma traj_sum_minus : forall g h us x,
  traj_sum (fun x u => g x u - h x u) us x = traj_sum g us x - traj_sum h us x.
Proof.
  induction us as [| u us IH]; intros x; cbn; [lra|]. rewrite IH. lra.
Qed.

Lemma traj_sum_scal : forall c g us x,
  traj_sum (fun x u => c * g x u) us x = c * traj_sum g us x.
Proof.
  induction us as [| u us IH]; intros x; cbn; [lra|]. rewrite IH. lra.
Qed.

(* input-only stage costs do not depend on the trajectory *)
Lemma traj_sum_input_only : forall (nu : W -> R) us x,
  traj_sum (fun _ u => nu u) us x = fold_right (fun u acc => nu u + acc) 0 us.
Proof.
  induction us as [| u us IH]; intros x; cbn; [reflexivity|]. now rewrite IH.
Qed.

(* (4) main theorem: one-step dissipation => dissipation over any horizon *)
Theorem dissipation_sum :
  (forall x u, Vf (step x u) - Vf x <= s x u) ->
  forall us x0, Vf (fold_left step us x0) - Vf x0 <= traj_sum s us x0.
Proof.
  intros H us. induction us as [| u us IH]; intros x0; cbn.
  - lra.
  - pose proof (IH (step x0 u)) as H1. pose proof (H x0 u) as H2. lra.
Qed.

(* L2-gain form:  s x u = gamma^2 * nu u - ny x,  with  nu u = |u|^2 and
   ny x = |C x|^2 = |y|^2. *)
Corollary l2_gain_sum : forall (gamma : R) (nu : W -> R) (ny : X -> R),
  (forall x, 0 <= Vf x) ->
  (forall x u, s x u = gamma ^ 2 * nu u - ny x) ->
  (forall x u, Vf (step x u) - Vf x <= s x u) ->
  forall us x0,
    traj_sum (fun x _ => ny x) us x0
    <= gamma ^ 2 * traj_sum (fun _ u => nu u) us x0 + Vf x0.
Proof.
  intros gamma nu ny Hpos Hs H us x0.
  pose proof (dissipation_sum H us x0) as Hd.
  rewrite (traj_sum_ext s (fun x u => gamma ^ 2 * nu u - ny x) Hs) in Hd.
  rewrite (traj_sum_minus (fun _ u => gamma ^ 2 * nu u) (fun x _ => ny x)) in Hd.
  rewrite (traj_sum_scal (gamma ^ 2) (fun _ u => nu u)) in Hd.
  pose proof (Hpos (fold_left step us x0)). lra.
Qed.

(* zero initial storage: the classical  ||y||_2^2 <= gamma^2 ||u||_2^2 *)
Corollary l2_gain_sum_zero_init : forall (gamma : R) (nu : W -> R) (ny : X -> R),
  (forall x, 0 <= Vf x) ->
  (forall x u, s x u = gamma ^ 2 * nu u - ny x) ->
  (forall x u, Vf (step x u) - Vf x <= s x u) ->
  forall us x0, Vf x0 = 0 ->
    traj_sum (fun x _ => ny x) us x0
    <= gamma ^ 2 * traj_sum (fun _ u => nu u) us x0.
Proof.
  intros gamma nu ny Hpos Hs H us x0 H0.
  pose proof (l2_gain_sum gamma nu ny Hpos Hs H us x0). lra.
Qed.

(* pykoop's documented parametrisation  Xi = diag(1/gamma, -gamma):
     s(u,y) = gamma |u|^2 - |y|^2 / gamma                                      *)
Corollary l2_gain_sum_xi : forall (gamma : R) (nu : W -> R) (ny : X -> R),
  0 < gamma ->
  (forall x, 0 <= Vf x) ->
  (forall x u, s x u = gamma * nu u - ny x / gamma) ->
  (forall x u, Vf (step x u) - Vf x <= s x u) ->
  forall us x0,
    traj_sum (fun x _ => ny x) us x0
    <= gamma ^ 2 * traj_sum (fun _ u => nu u) us x0 + gamma * Vf x0.
Proof.
  intros gamma nu ny Hg Hpos Hs H us x0.
  pose proof (dissipation_sum H us x0) as Hd.
  rewrite (traj_sum_ext s (fun x u => gamma * nu u - / gamma * ny x)) in Hd
    by (intros; rewrite Hs; unfold Rdiv; ring).
  rewrite (traj_sum_minus (fun _ u => gamma * nu u) (fun x _ => / gamma * ny x)) in Hd.
  rewrite (traj_sum_scal gamma (fun _ u => nu u)) in Hd.
  rewrite (traj_sum_scal (/ gamma) (fun x _ => ny x)) in Hd.
  pose proof (Hpos (fold_left step us x0)) as Hp.
  set (Sy := traj_sum (fun x _ => ny x) us x0) in *.
  set (Su := traj_sum (fun _ u => nu u) us x0) in *.
  assert (Hle : / gamma * Sy <= gamma * Su + Vf x0) by lra.
  apply (Rmult_le_compat_l gamma) in Hle; [| lra].
  replace (gamma * (/ gamma * Sy)) with Sy in Hle by (field; lra).
  lra.
Qed.

(* passivity form: s x u = 2 * <u, y>  (Xi = [0,-1;-1,0]) *)
Corollary passivity_sum : forall (uy : X -> W -> R),
  (forall x, 0 <= Vf x) ->
  (forall x u, s x u = 2 * uy x u) ->
  (forall x u, Vf (step x u) - Vf x <= s x u) ->
  forall us x0, - Vf x0 <= 2 * traj_sum uy us x0.
Proof.
  intros uy Hpos Hs H us x0.
  pose proof (dissipation_sum H us x0) as Hd.
  rewrite (traj_sum_ext s (fun x u => 2 * uy x u) Hs) in Hd.
  rewrite traj_sum_scal in Hd.
  pose proof (Hpos (fold_left step us x0)). lra.
Qed.

End Dissipation.

(* ================================================================== *)
(* Part B: from the LMI of LmiEdmdDissipativityConstr to the one-step
   dissipation inequality.

   pykoop (lmi_regressors.py, _create_problem_a / _create_problem_b) imposes

       [ P - C^T Xi11 C    -C^T Xi12    A^T P ]
       [ -Xi12^T C         -Xi22        B^T P ]   >=  picos_eps  (>= 0)
       [ P A               P B          P     ]

   with supply rate  s(u, y) = -[y; u]^T Xi [y; u],  y = C x,  Xi symmetric
   (only the blocks Xi11, Xi12, Xi22 are read by the code, so the lower-left
   block is implicitly Xi12^T).

   Evaluating the block matrix at the stacked vector (x ; u ; z) gives

     form x u z =   Q x x - Xi11 (C x) (C x)          (1,1)
                  - 2 * Xi12 (C x) u                  (1,2)+(2,1)
                  - Xi22 u u                          (2,2)
                  + 2 * Q (A x) z + 2 * Q (B u) z     (1,3)+(3,1), (2,3)+(3,2)
                  + Q z z                             (3,3)

   where Q v w = v^T P w.  No law at all is needed for A, B, C or the Xi
   blocks; only symmetry/bilinearity of Q. *)

Section DissipLMI.

Variable V W Y : Type.
Variable vadd : V -> V -> V.
Variable vscale : R -> V -> V.
Variable Q : V -> V -> R.
Variable A : V -> V.
Variable B : W -> V.
Variable C : V -> Y.
Variable Xi11 : Y -> Y -> R.
Variable Xi12 : Y -> W -> R.
Variable Xi22 : W -> W -> R.

Hypothesis Q_sym : forall u v, Q u v = Q v u.
Hypothesis Q_add_l : forall u v w, Q (vadd u v) w = Q u w + Q v w.
Hypothesis Q_scale_l : forall c u v, Q (vscale c u) v = c * Q u v.

Definition dstep (x : V) (u : W) : V := vadd (A x) (B u).
Definition storage (x : V) : R := Q x x.

(* s(u, y) = -[y;u]^T Xi [y;u] with y = C x *)
Definition supply (x : V) (u : W) : R :=
  - (Xi11 (C x) (C x) + 2 * Xi12 (C x) u + Xi22 u u).

Definition dissip_form (x : V) (u : W) (z : V) : R :=
  (Q x x - Xi11 (C x) (C x)) - 2 * Xi12 (C x) u - Xi22 u u
  + 2 * Q (A x) z + 2 * Q (B u) z + Q z z.

Lemma dissip_form_at_min : forall x u,
  dissip_form x u (vscale (-1) (dstep x u))
  = storage x + supply x u - storage (dstep x u).
Proof.
  intros x u. unfold dissip_form, storage, supply.
  set (xp := dstep x u).
  assert (E1 : Q (A x) (vscale (-1) xp) + Q (B u) (vscale (-1) xp) = - Q xp xp).
  { rewrite <- Q_add_l. fold (dstep x u). fold xp.
    rewrite (Q_sym xp), Q_scale_l. ring. }
  assert (E2 : Q (vscale (-1) xp) (vscale (-1) xp) = Q xp xp).
  { rewrite Q_scale_l, (Q_sym xp), Q_scale_l. ring. }
  rewrite E2.
  replace (2 * Q (A x) (vscale (-1) xp) + 2 * Q (B u) (vscale (-1) xp))
    with (2 * (Q (A x) (vscale (-1) xp) + Q (B u) (vscale (-1) xp))) in * by ring.
  transitivity
    (Q x x - Xi11 (C x) (C x) - 2 * Xi12 (C x) u - Xi22 u u
     + 2 * (Q (A x) (vscale (-1) xp) + Q (B u) (vscale (-1) xp)) + Q xp xp).
  - ring.
  - rewrite E1. ring.
Qed.

(* (5) LMI  =>  one-step dissipation inequality *)
Theorem lmi_one_step_dissipation :
  (forall x u z, 0 <= dissip_form x u z) ->
  forall x u, storage (dstep x u) - storage x <= supply x u.
Proof.
  intros H x u.
  pose proof (H x u (vscale (-1) (dstep x u))) as H1.
  rewrite dissip_form_at_min in H1. lra.
Qed.

(* combined with Part A: dissipation along every finite trajectory *)
Theorem lmi_dissipation_sum :
  (forall x u z, 0 <= dissip_form x u z) ->
  forall us x0,
    storage (fold_left dstep us x0) - storage x0
    <= traj_sum V W dstep supply us x0.
Proof.
  intros H us x0.
  apply (dissipation_sum V W dstep storage supply).
  apply lmi_one_step_dissipation. exact H.
Qed.

(* L2-gain reading.  With Xi12 = 0 the supply is
     s = (- Xi22 u u) - Xi11 (C x) (C x);
   pykoop's default  Xi = diag(I, -I)  gives  s = |u|^2 - |y|^2  (gain 1),
   and  Xi = diag(I/gamma, -gamma I)  gives gain gamma (see l2_gain_sum_xi).
   P >= 0 is imposed separately by pykoop (problem B: P >> picos_eps; problem
   A starts from P = I), so it is a hypothesis here. *)
Theorem lmi_l2_gain_default :
  (forall y u, Xi12 y u = 0) ->
  (forall x, 0 <= Q x x) ->
  (forall x u z, 0 <= dissip_form x u z) ->
  forall us x0,
    traj_sum V W dstep (fun x _ => Xi11 (C x) (C x)) us x0
    <= traj_sum V W dstep (fun _ u => - Xi22 u u) us x0 + Q x0 x0.
Proof.
  intros H12 Hpos H us x0.
  pose proof (l2_gain_sum V W dstep storage supply 1
                (fun u => - Xi22 u u) (fun x => Xi11 (C x) (C x))) as HL.
  assert (H1 : forall x u, supply x u = 1 ^ 2 * (- Xi22 u u) - Xi11 (C x) (C x))
    by (intros x u; unfold supply; rewrite H12; ring).
  specialize (HL Hpos H1 (lmi_one_step_dissipation H) us x0).
  cbv beta in HL. unfold storage in HL. lra.
Qed.

(* Generic Schur-complement-style lemma (completion of the square): for a
   symmetric bilinear Q, if  0 <= Q z z - 2 Q z m + r  for all z, then
   Q m m <= r  (take z := m).  With m = M xi, r = R0 xi this is
   "[[R0, M^T P],[P M, P]] >= 0  =>  M^T P M <= R0";  lmi_one_step_dissipation
   is the instance  xi = (x;u),  M xi = A x + B u,  R0 xi = Q x x + supply,
   after the change of variable z -> -z. *)
Lemma schur_complement_form : forall (m : V) (r : R),
  (forall z, 0 <= Q z z - 2 * Q z m + r) -> Q m m <= r.
Proof. intros m r H. pose proof (H m). lra. Qed.

Lemma schur_complement_form_fun : forall (Xi : Type) (M : Xi -> V) (R0 : Xi -> R) xi,
  (forall z, 0 <= Q z z - 2 * Q z (M xi) + R0 xi) -> Q (M xi) (M xi) <= R0 xi.
Proof. intros Xi M R0 xi H. apply schur_complement_form. exact H. Qed.

End DissipLMI.
