(* Sanity instances: the Section hypotheses of Lyapunov.v / Dissip.v are
   satisfied by R^2 with a symmetric matrix P and arbitrary matrices A, B, so
   the abstract theorems are not vacuous. *)

From Coq Require Import Reals Lra Lia Psatz List.
From PK.AlgR Require Import Lyapunov Dissip.
Local Open Scope R_scope.

Definition V2 : Type := (R * R)%type.
Definition v2add (u v : V2) : V2 := (fst u + fst v, snd u + snd v).
Definition v2scale (c : R) (u : V2) : V2 := (c * fst u, c * snd u).
Definition v2zero : V2 := (0, 0).

(* Q u v = u^T [[p11 p12][p12 p22]] v *)
Definition Q2 (p11 p12 p22 : R) (u v : V2) : R :=
  fst u * (p11 * fst v + p12 * snd v) + snd u * (p12 * fst v + p22 * snd v).

(* A v = [[a11 a12][a21 a22]] v *)
Definition A2 (a11 a12 a21 a22 : R) (v : V2) : V2 :=
  (a11 * fst v + a12 * snd v, a21 * fst v + a22 * snd v).

Lemma Q2_sym : forall p11 p12 p22 u v, Q2 p11 p12 p22 u v = Q2 p11 p12 p22 v u.
Proof. intros. unfold Q2. ring. Qed.

Lemma Q2_add_l : forall p11 p12 p22 u v w,
  Q2 p11 p12 p22 (v2add u v) w = Q2 p11 p12 p22 u w + Q2 p11 p12 p22 v w.
Proof. intros. unfold Q2, v2add; cbn [fst snd]. ring. Qed.

Lemma Q2_scale_l : forall p11 p12 p22 c u v,
  Q2 p11 p12 p22 (v2scale c u) v = c * Q2 p11 p12 p22 u v.
Proof. intros. unfold Q2, v2scale; cbn [fst snd]. ring. Qed.

(* spectral-radius LMI on R^2: real eigenvalues are bounded by rho *)
Theorem lyap_real_eig_R2 : forall p11 p12 p22 a11 a12 a21 a22 rho,
  0 < rho ->
  (forall v w : V2,
     0 <= rho * Q2 p11 p12 p22 v v
          + 2 * Q2 p11 p12 p22 w (A2 a11 a12 a21 a22 v)
          + rho * Q2 p11 p12 p22 w w) ->
  forall (v : V2) lam,
    0 < Q2 p11 p12 p22 v v ->
    A2 a11 a12 a21 a22 v = v2scale lam v -> Rabs lam <= rho.
Proof.
  intros p11 p12 p22 a11 a12 a21 a22 rho.
  apply (lyap_real_eig V2 v2scale (Q2 p11 p12 p22) (A2 a11 a12 a21 a22)).
  - apply Q2_sym.
  - apply Q2_scale_l.
Qed.

(* a concrete check: P = I, A = diag(1/2, 1/3), rho = 1/2 satisfies the LMI *)
Example lmi_holds_example : forall v w : V2,
  0 <= (1/2) * Q2 1 0 1 v v + 2 * Q2 1 0 1 w (A2 (1/2) 0 0 (1/3) v)
       + (1/2) * Q2 1 0 1 w w.
Proof.
  intros [v1 v2] [w1 w2]. unfold Q2, A2; cbn [fst snd].
  pose proof (pow2_ge_0 (v1 + w1)). pose proof (pow2_ge_0 (v2 + 2 / 3 * w2)).
  pose proof (pow2_ge_0 w2). nra.
Qed.

(* dissipativity LMI on R^2 states, scalar input/output *)
Definition B2 (b1 b2 : R) (u : R) : V2 := (b1 * u, b2 * u).
Definition C2 (c1 c2 : R) (x : V2) : R := c1 * fst x + c2 * snd x.

Theorem lmi_l2_gain_R2 : forall p11 p12 p22 a11 a12 a21 a22 b1 b2 c1 c2,
  (forall x, 0 <= Q2 p11 p12 p22 x x) ->
  (forall x u z,
     0 <= dissip_form V2 R R (Q2 p11 p12 p22) (A2 a11 a12 a21 a22) (B2 b1 b2)
            (C2 c1 c2) (fun y y' => y * y') (fun _ _ => 0) (fun u u' => - (u * u'))
            x u z) ->
  forall us x0,
    traj_sum V2 R (dstep V2 R v2add (A2 a11 a12 a21 a22) (B2 b1 b2))
      (fun x _ => C2 c1 c2 x * C2 c1 c2 x) us x0
    <= traj_sum V2 R (dstep V2 R v2add (A2 a11 a12 a21 a22) (B2 b1 b2))
         (fun _ u => u * u) us x0
       + Q2 p11 p12 p22 x0 x0.
Proof.
  intros p11 p12 p22 a11 a12 a21 a22 b1 b2 c1 c2 Hpos H us x0.
  pose proof (lmi_l2_gain_default V2 R R v2add v2scale (Q2 p11 p12 p22)
                (A2 a11 a12 a21 a22) (B2 b1 b2) (C2 c1 c2)
                (fun y y' => y * y') (fun _ _ => 0) (fun u u' => - (u * u'))
                (Q2_sym p11 p12 p22) (Q2_add_l p11 p12 p22) (Q2_scale_l p11 p12 p22)
                (fun _ _ => eq_refl) Hpos H us x0) as HL.
  cbv beta in HL.
  erewrite (traj_sum_ext V2 R _ (fun _ u => - - (u * u)) (fun _ u => u * u)) in HL
    by (intros; ring).
  exact HL.
Qed.
