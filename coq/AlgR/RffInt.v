(* C17, item (8): Riemann-integral form (Coquelicot) of "the offset term of
   the weight_offset random Fourier features averages to zero over a uniform
   phase beta ~ U[0, 2 PI]". *)

From Coq Require Import Reals Lra.
From Coquelicot Require Import Coquelicot.
From PK.AlgR Require Import Rff.
Local Open Scope R_scope.

Lemma offset_primitive_is_derive : forall c beta,
  is_derive (offset_primitive c) beta (cos (c + 2 * beta)).
Proof.
  intros c beta. unfold offset_primitive.
  auto_derive; [trivial | field].
Qed.

Lemma offset_integrand_continuous : forall c beta,
  continuous (fun b => cos (c + 2 * b)) beta.
Proof.
  intros c beta.
  apply (ex_derive_continuous (fun b => cos (c + 2 * b))).
  auto_derive. trivial.
Qed.

Lemma is_RInt_offset : forall c,
  is_RInt (fun beta => cos (c + 2 * beta)) 0 (2 * PI) 0.
Proof.
  intros c.
  pose proof (is_RInt_derive (offset_primitive c) (fun beta => cos (c + 2 * beta))
                0 (2 * PI)) as H.
  replace 0 with (minus (offset_primitive c (2 * PI)) (offset_primitive c 0)) at 2.
  - apply H.
    + intros x _. apply offset_primitive_is_derive.
    + intros x _. apply offset_integrand_continuous.
  - unfold minus, plus, opp; simpl.
    pose proof (offset_primitive_periodic c). lra.
Qed.

Theorem RInt_offset_zero : forall c,
  RInt (fun beta => cos (c + 2 * beta)) 0 (2 * PI) = 0.
Proof. intros c. apply is_RInt_unique. apply is_RInt_offset. Qed.

(* E_beta [ 2 cos (a + beta) cos (b + beta) ] = cos (a - b),  beta ~ U[0, 2 PI] *)
Lemma is_RInt_two_cos_cos : forall a b,
  is_RInt (fun beta => 2 * cos (a + beta) * cos (b + beta)) 0 (2 * PI)
          (2 * PI * cos (a - b)).
Proof.
  intros a b.
  apply (is_RInt_ext (fun beta => plus (cos (a - b)) (cos (a + b + 2 * beta)))).
  - intros x _. unfold plus; simpl. symmetry. apply two_cos_cos_offset.
  - replace (2 * PI * cos (a - b))
      with (plus (scal (2 * PI - 0) (cos (a - b))) 0).
    + apply (is_RInt_plus (fun _ => cos (a - b)) (fun beta => cos (a + b + 2 * beta))).
      * apply (is_RInt_const 0 (2 * PI) (cos (a - b))).
      * apply is_RInt_offset.
    + unfold plus, scal; simpl. unfold mult; simpl. ring.
Qed.

Theorem mean_two_cos_cos : forall a b,
  / (2 * PI) * RInt (fun beta => 2 * cos (a + beta) * cos (b + beta)) 0 (2 * PI)
  = cos (a - b).
Proof.
  intros a b. rewrite (is_RInt_unique _ _ _ _ (is_RInt_two_cos_cos a b)).
  field. apply PI_neq0.
Qed.
