(* C09: quadratic-form reading of the spectral-radius LMI
        [[rho P, A^T P],[P A, rho P]] > 0
   used by pykoop.lmi_regressors.LmiEdmdSpectralRadiusConstr.

   Abstract setting: V is any type carrying an addition and a scalar
   multiplication; Q is the symmetric bilinear form  Q v w = v^T P w ; A is a
   linear map.  Only the laws that are actually used are assumed (they are all
   satisfied by R^n with a symmetric matrix P and a square matrix A).  No
   vector-space axioms on V itself are needed.

   The block LMI  [[rho P, A^T P],[P A, rho P]] >= 0  evaluated at the stacked
   vector (v ; w) reads
        0 <= rho * Q v v + 2 * Q w (A v) + rho * Q w w .                     *)

From Coq Require Import Reals Lra Lia Psatz.
Local Open Scope R_scope.

Section Lyapunov.

Variable V : Type.
Variable vadd : V -> V -> V.
Variable vscale : R -> V -> V.
Variable Q : V -> V -> R.
Variable A : V -> V.

Hypothesis Q_sym : forall u v, Q u v = Q v u.
Hypothesis Q_add_l : forall u v w, Q (vadd u v) w = Q u w + Q v w.
Hypothesis Q_scale_l : forall c u v, Q (vscale c u) v = c * Q u v.

(* right-hand laws follow from symmetry *)
Lemma Q_add_r : forall u v w, Q u (vadd v w) = Q u v + Q u w.
Proof. intros. rewrite Q_sym, Q_add_l, (Q_sym v u), (Q_sym w u). reflexivity. Qed.

Lemma Q_scale_r : forall c u v, Q u (vscale c v) = c * Q u v.
Proof. intros. rewrite Q_sym, Q_scale_l, (Q_sym v u). reflexivity. Qed.

Lemma Q_scale_scale : forall c u, Q (vscale c u) (vscale c u) = c ^ 2 * Q u u.
Proof. intros. rewrite Q_scale_l, Q_scale_r. ring. Qed.

(* the LMI form *)
Definition lyap_form (rho : R) (v w : V) : R :=
  rho * Q v v + 2 * Q w (A v) + rho * Q w w.

(* value of the form at the minimising  w = -(1/rho) A v  *)
Lemma lyap_form_at_min : forall rho v, rho <> 0 ->
  lyap_form rho v (vscale (-1 / rho) (A v)) = rho * Q v v - Q (A v) (A v) / rho.
Proof.
  intros rho v Hr. unfold lyap_form.
  rewrite Q_scale_scale, Q_scale_l. field. exact Hr.
Qed.

(* (1) non-strict LMI => contraction in the P-norm *)
Theorem lyap_contraction : forall rho,
  0 < rho ->
  (forall v w, 0 <= rho * Q v v + 2 * Q w (A v) + rho * Q w w) ->
  forall v, Q (A v) (A v) <= rho ^ 2 * Q v v.
Proof.
  intros rho Hrho H v.
  pose proof (H v (vscale (-1 / rho) (A v))) as H1.
  fold (lyap_form rho v (vscale (-1 / rho) (A v))) in H1.
  rewrite lyap_form_at_min in H1 by lra.
  assert (Hq : Q (A v) (A v) / rho <= rho * Q v v) by lra.
  apply (Rmult_le_compat_r rho) in Hq; [| lra].
  replace (Q (A v) (A v) / rho * rho) with (Q (A v) (A v)) in Hq by (field; lra).
  lra.
Qed.

(* (1') pointwise strict version: strictness of the form at the single pair
   (v, -(1/rho) A v) gives strict contraction at v. *)
Lemma lyap_contraction_strict_at : forall rho v,
  0 < rho ->
  0 < lyap_form rho v (vscale (-1 / rho) (A v)) ->
  Q (A v) (A v) < rho ^ 2 * Q v v.
Proof.
  intros rho v Hrho H1.
  rewrite lyap_form_at_min in H1 by lra.
  assert (Hq : Q (A v) (A v) / rho < rho * Q v v) by lra.
  apply (Rmult_lt_compat_r rho) in Hq; [| lra].
  replace (Q (A v) (A v) / rho * rho) with (Q (A v) (A v)) in Hq by (field; lra).
  lra.
Qed.

(* (1'') strict LMI.  "(v ; w) is not the zero vector" is formalised, for a
   positive definite P, as  "0 < Q v v  or  0 < Q w w". *)
Theorem lyap_contraction_strict : forall rho,
  0 < rho ->
  (forall v w, 0 < Q v v \/ 0 < Q w w ->
               0 < rho * Q v v + 2 * Q w (A v) + rho * Q w w) ->
  forall v, 0 < Q v v -> Q (A v) (A v) < rho ^ 2 * Q v v.
Proof.
  intros rho Hrho H v Hv.
  apply lyap_contraction_strict_at; [exact Hrho|].
  unfold lyap_form. apply H. left; exact Hv.
Qed.

(* ------------------------------------------------------------------ *)
(* (2) eigenpairs                                                      *)

Lemma sq_le_Rabs_le : forall lam rho, 0 < rho -> lam ^ 2 <= rho ^ 2 -> Rabs lam <= rho.
Proof.
  intros lam rho Hrho H.
  unfold Rabs. destruct (Rcase_abs lam); nra.
Qed.

Lemma sq_lt_Rabs_lt : forall lam rho, 0 < rho -> lam ^ 2 < rho ^ 2 -> Rabs lam < rho.
Proof.
  intros lam rho Hrho H.
  unfold Rabs. destruct (Rcase_abs lam); nra.
Qed.

Theorem lyap_real_eig_sq : forall rho,
  0 < rho ->
  (forall v w, 0 <= rho * Q v v + 2 * Q w (A v) + rho * Q w w) ->
  forall v lam, 0 < Q v v -> A v = vscale lam v -> lam ^ 2 <= rho ^ 2.
Proof.
  intros rho Hrho H v lam Hv Hev.
  pose proof (lyap_contraction rho Hrho H v) as Hc.
  rewrite Hev, Q_scale_scale in Hc.
  apply (Rmult_le_reg_r (Q v v)); [exact Hv | exact Hc].
Qed.

Theorem lyap_real_eig : forall rho,
  0 < rho ->
  (forall v w, 0 <= rho * Q v v + 2 * Q w (A v) + rho * Q w w) ->
  forall v lam, 0 < Q v v -> A v = vscale lam v -> Rabs lam <= rho.
Proof.
  intros rho Hrho H v lam Hv Hev.
  apply sq_le_Rabs_le; [exact Hrho|].
  eapply lyap_real_eig_sq; eauto.
Qed.

Theorem lyap_real_eig_strict : forall rho,
  0 < rho ->
  (forall v w, 0 < Q v v \/ 0 < Q w w ->
               0 < rho * Q v v + 2 * Q w (A v) + rho * Q w w) ->
  forall v lam, 0 < Q v v -> A v = vscale lam v -> Rabs lam < rho.
Proof.
  intros rho Hrho H v lam Hv Hev.
  apply sq_lt_Rabs_lt; [exact Hrho|].
  pose proof (lyap_contraction_strict rho Hrho H v Hv) as Hc.
  rewrite Hev, Q_scale_scale in Hc.
  apply (Rmult_lt_reg_r (Q v v)); [exact Hv | exact Hc].
Qed.

(* complex eigenpair  A (x + i y) = (a - i b)(x + i y) written in real form:
     A x = a x - b y ,   A y = b x + a y .
   (The conjugate pair a +- i b has the same modulus, so the sign convention
   is immaterial.) *)
Lemma complex_pair_energy : forall x y a b,
  A x = vadd (vscale a x) (vscale (- b) y) ->
  A y = vadd (vscale b x) (vscale a y) ->
  Q (A x) (A x) + Q (A y) (A y) = (a ^ 2 + b ^ 2) * (Q x x + Q y y).
Proof.
  intros x y a b Hx Hy. rewrite Hx, Hy.
  rewrite !Q_add_l, !Q_add_r, !Q_scale_l, !Q_scale_r.
  rewrite (Q_sym y x). ring.
Qed.

Theorem lyap_complex_eig : forall rho,
  0 < rho ->
  (forall v w, 0 <= rho * Q v v + 2 * Q w (A v) + rho * Q w w) ->
  forall x y a b,
    0 < Q x x + Q y y ->
    A x = vadd (vscale a x) (vscale (- b) y) ->
    A y = vadd (vscale b x) (vscale a y) ->
    a ^ 2 + b ^ 2 <= rho ^ 2.
Proof.
  intros rho Hrho H x y a b Hpos Hx Hy.
  pose proof (lyap_contraction rho Hrho H x) as Hcx.
  pose proof (lyap_contraction rho Hrho H y) as Hcy.
  pose proof (complex_pair_energy x y a b Hx Hy) as He.
  apply (Rmult_le_reg_r (Q x x + Q y y)); [exact Hpos | lra].
Qed.

Theorem lyap_complex_eig_strict : forall rho,
  0 < rho ->
  (forall v w, 0 < Q v v \/ 0 < Q w w ->
               0 < rho * Q v v + 2 * Q w (A v) + rho * Q w w) ->
  forall x y a b,
    0 < Q x x -> 0 < Q y y ->
    A x = vadd (vscale a x) (vscale (- b) y) ->
    A y = vadd (vscale b x) (vscale a y) ->
    a ^ 2 + b ^ 2 < rho ^ 2.
Proof.
  intros rho Hrho H x y a b Hpx Hpy Hx Hy.
  pose proof (lyap_contraction_strict rho Hrho H x Hpx) as Hcx.
  pose proof (lyap_contraction_strict rho Hrho H y Hpy) as Hcy.
  pose proof (complex_pair_energy x y a b Hx Hy) as He.
  apply (Rmult_lt_reg_r (Q x x + Q y y)); [lra | lra].
Qed.

(* modulus form: sqrt (a^2 + b^2) <= rho *)
Corollary lyap_complex_eig_modulus : forall rho,
  0 < rho ->
  (forall v w, 0 <= rho * Q v v + 2 * Q w (A v) + rho * Q w w) ->
  forall x y a b,
    0 < Q x x + Q y y ->
    A x = vadd (vscale a x) (vscale (- b) y) ->
    A y = vadd (vscale b x) (vscale a y) ->
    sqrt (a ^ 2 + b ^ 2) <= rho.
Proof.
  intros rho Hrho H x y a b Hpos Hx Hy.
  pose proof (lyap_complex_eig rho Hrho H x y a b Hpos Hx Hy) as Hle.
  rewrite <- (sqrt_pow2 rho) by lra.
  apply sqrt_le_1_alt. exact Hle.
Qed.

(* ------------------------------------------------------------------ *)
(* The LMI itself forces P >= 0 (resp. P > 0): evaluate at (v ; 0 * v). *)

Lemma lyap_form_w0 : forall rho v, lyap_form rho v (vscale 0 v) = rho * Q v v.
Proof.
  intros. unfold lyap_form. rewrite Q_scale_scale, Q_scale_l. ring.
Qed.

Lemma lyap_lmi_psd : forall rho,
  0 < rho ->
  (forall v w, 0 <= rho * Q v v + 2 * Q w (A v) + rho * Q w w) ->
  forall v, 0 <= Q v v.
Proof.
  intros rho Hrho H v. pose proof (H v (vscale 0 v)) as H1.
  fold (lyap_form rho v (vscale 0 v)) in H1. rewrite lyap_form_w0 in H1. nra.
Qed.

(* strict LMI stated literally as "(v ; w) <> 0" with a distinguished zero
   vector; no law about vzero is needed. *)
Variable vzero : V.

Lemma lyap_lmi_pd : forall rho,
  0 < rho ->
  (forall v w, v <> vzero \/ w <> vzero ->
               0 < rho * Q v v + 2 * Q w (A v) + rho * Q w w) ->
  forall v, v <> vzero -> 0 < Q v v.
Proof.
  intros rho Hrho H v Hv. pose proof (H v (vscale 0 v) (or_introl Hv)) as H1.
  fold (lyap_form rho v (vscale 0 v)) in H1. rewrite lyap_form_w0 in H1. nra.
Qed.

Theorem lyap_contraction_strict_nz : forall rho,
  0 < rho ->
  (forall v w, v <> vzero \/ w <> vzero ->
               0 < rho * Q v v + 2 * Q w (A v) + rho * Q w w) ->
  forall v, v <> vzero -> Q (A v) (A v) < rho ^ 2 * Q v v.
Proof.
  intros rho Hrho H v Hv.
  apply lyap_contraction_strict_at; [exact Hrho|].
  unfold lyap_form. apply H. left; exact Hv.
Qed.

(* spectral radius, real eigenvalue, from the strict LMI alone *)
Theorem lyap_real_eig_strict_nz : forall rho,
  0 < rho ->
  (forall v w, v <> vzero \/ w <> vzero ->
               0 < rho * Q v v + 2 * Q w (A v) + rho * Q w w) ->
  forall v lam, v <> vzero -> A v = vscale lam v -> Rabs lam < rho.
Proof.
  intros rho Hrho H v lam Hv Hev.
  apply sq_lt_Rabs_lt; [exact Hrho|].
  pose proof (lyap_contraction_strict_nz rho Hrho H v Hv) as Hc.
  pose proof (lyap_lmi_pd rho Hrho H v Hv) as Hpos.
  rewrite Hev, Q_scale_scale in Hc.
  apply (Rmult_lt_reg_r (Q v v)); [exact Hpos | exact Hc].
Qed.

(* spectral radius, complex eigenvalue a +- i b with eigenvector x + i y.
   For a genuinely complex eigenvalue (b <> 0) of a real matrix both x and y
   are non-zero (they are linearly independent); for b = 0 use the real case. *)
Theorem lyap_complex_eig_strict_nz : forall rho,
  0 < rho ->
  (forall v w, v <> vzero \/ w <> vzero ->
               0 < rho * Q v v + 2 * Q w (A v) + rho * Q w w) ->
  forall x y a b,
    x <> vzero -> y <> vzero ->
    A x = vadd (vscale a x) (vscale (- b) y) ->
    A y = vadd (vscale b x) (vscale a y) ->
    a ^ 2 + b ^ 2 < rho ^ 2.
Proof.
  intros rho Hrho H x y a b Hxz Hyz Hx Hy.
  pose proof (lyap_contraction_strict_nz rho Hrho H x Hxz) as Hcx.
  pose proof (lyap_contraction_strict_nz rho Hrho H y Hyz) as Hcy.
  pose proof (lyap_lmi_pd rho Hrho H x Hxz) as Hpx.
  pose proof (lyap_lmi_pd rho Hrho H y Hyz) as Hpy.
  pose proof (complex_pair_energy x y a b Hx Hy) as He.
  apply (Rmult_lt_reg_r (Q x x + Q y y)); [lra | lra].
Qed.

(* ------------------------------------------------------------------ *)
(* (3) versions with slack: the solver returns the LMI only up to a
   tolerance, i.e. lambda_min >= -eps.                                  *)

(* (3a) un-normalised slack: literal instantiation *)
Theorem lyap_contraction_slack_abs : forall rho eps,
  0 < rho ->
  (forall v w, - eps <= rho * Q v v + 2 * Q w (A v) + rho * Q w w) ->
  forall v, Q (A v) (A v) <= rho ^ 2 * Q v v + rho * eps.
Proof.
  intros rho eps Hrho H v.
  pose proof (H v (vscale (-1 / rho) (A v))) as H1.
  fold (lyap_form rho v (vscale (-1 / rho) (A v))) in H1.
  rewrite lyap_form_at_min in H1 by lra.
  assert (Hq : Q (A v) (A v) / rho <= rho * Q v v + eps) by lra.
  apply (Rmult_le_compat_r rho) in Hq; [| lra].
  replace (Q (A v) (A v) / rho * rho) with (Q (A v) (A v)) in Hq by (field; lra).
  lra.
Qed.

(* (3b) normalised slack.  N v stands for the squared Euclidean norm |v|^2;
   the only law used is quadratic homogeneity.  The hypothesis
      - eps * (N v + N w) <= form v w
   is exactly  "z^T M z >= -eps |z|^2  for z = (v ; w)",  i.e. (for
   (v;w) on the unit sphere)  -eps <= form v w. *)
Variable N : V -> R.
Hypothesis N_scale : forall c v, N (vscale c v) = c ^ 2 * N v.

Theorem lyap_contraction_slack : forall rho eps,
  0 < rho ->
  (forall v w, - eps * (N v + N w)
               <= rho * Q v v + 2 * Q w (A v) + rho * Q w w) ->
  forall v, Q (A v) (A v)
            <= rho ^ 2 * Q v v + eps * (rho * N v + N (A v) / rho).
Proof.
  intros rho eps Hrho H v.
  pose proof (H v (vscale (-1 / rho) (A v))) as H1.
  fold (lyap_form rho v (vscale (-1 / rho) (A v))) in H1.
  rewrite lyap_form_at_min in H1 by lra.
  rewrite N_scale in H1.
  assert (Hq : Q (A v) (A v) / rho
               <= rho * Q v v + eps * (N v + (-1 / rho) ^ 2 * N (A v))) by lra.
  apply (Rmult_le_compat_r rho) in Hq; [| lra].
  replace (Q (A v) (A v) / rho * rho) with (Q (A v) (A v)) in Hq by (field; lra).
  replace ((rho * Q v v + eps * (N v + (-1 / rho) ^ 2 * N (A v))) * rho)
    with (rho ^ 2 * Q v v + eps * (rho * N v + N (A v) / rho)) in Hq by (field; lra).
  exact Hq.
Qed.

(* with an operator-norm bound  |A v|^2 <= a2 |v|^2 *)
Corollary lyap_contraction_slack_opnorm : forall rho eps a2,
  0 < rho -> 0 <= eps ->
  (forall v, N (A v) <= a2 * N v) ->
  (forall v w, - eps * (N v + N w)
               <= rho * Q v v + 2 * Q w (A v) + rho * Q w w) ->
  forall v, Q (A v) (A v)
            <= rho ^ 2 * Q v v + eps * (rho + a2 / rho) * N v.
Proof.
  intros rho eps a2 Hrho Heps Ha H v.
  pose proof (lyap_contraction_slack rho eps Hrho H v) as Hc.
  pose proof (Ha v) as Hav.
  assert (Hd : N (A v) / rho <= a2 * N v / rho).
  { unfold Rdiv. apply Rmult_le_compat_r; [left; apply Rinv_0_lt_compat; lra | exact Hav]. }
  assert (He : eps * (rho * N v + N (A v) / rho)
               <= eps * (rho * N v + a2 * N v / rho)).
  { apply Rmult_le_compat_l; [exact Heps | lra]. }
  replace (eps * (rho + a2 / rho) * N v)
    with (eps * (rho * N v + a2 * N v / rho)) by (field; lra).
  lra.
Qed.

(* eigenvalue bound under slack: if P >= pmin I with rho * pmin > eps >= 0,
   a real eigenvalue satisfies
       lam^2 <= rho^2 * (rho*pmin + eps) / (rho*pmin - eps).             *)
Theorem lyap_real_eig_slack : forall rho eps pmin,
  0 < rho -> 0 <= eps -> eps < rho * pmin ->
  (forall v, pmin * N v <= Q v v) ->
  (forall v w, - eps * (N v + N w)
               <= rho * Q v v + 2 * Q w (A v) + rho * Q w w) ->
  forall v lam, 0 < N v -> A v = vscale lam v ->
    lam ^ 2 * (rho * pmin - eps) <= rho ^ 2 * (rho * pmin + eps).
Proof.
  intros rho eps pmin Hrho Heps Hgap Hpmin H v lam Hn Hev.
  pose proof (lyap_contraction_slack rho eps Hrho H v) as Hc.
  rewrite Hev, Q_scale_scale, N_scale in Hc.
  pose proof (Hpmin v) as Hp.
  set (q := Q v v) in *. set (n := N v) in *.
  set (X0 := rho * pmin - eps). set (X := rho * q - eps * n).
  assert (HX0 : 0 < X0) by (unfold X0; lra).
  assert (HnX : n * X0 <= X) by (unfold X, X0; nra).
  assert (HX : 0 < X) by nra.
  (* multiply Hc by rho *)
  assert (Hc' : lam ^ 2 * X <= rho ^ 2 * (X + 2 * eps * n)).
  { unfold X.
    apply (Rmult_le_compat_r rho) in Hc; [| lra].
    replace ((rho ^ 2 * q + eps * (rho * n + lam ^ 2 * n / rho)) * rho)
      with (rho ^ 2 * (rho * q) + eps * rho ^ 2 * n + eps * lam ^ 2 * n) in Hc
      by (field; lra).
    lra. }
  assert (Hl2 : 0 <= lam ^ 2) by nra.
  assert (Hr2 : 0 <= rho ^ 2) by nra.
  (* lam^2 X0 X <= rho^2 X (X0 + 2 eps) *)
  assert (Hm : (lam ^ 2 * X0) * X <= (rho ^ 2 * (X0 + 2 * eps)) * X).
  { assert (H1 : lam ^ 2 * X * X0 <= rho ^ 2 * (X + 2 * eps * n) * X0)
      by (apply Rmult_le_compat_r; lra).
    assert (H2 : 2 * eps * (n * X0) <= 2 * eps * X)
      by (apply Rmult_le_compat_l; lra).
    assert (H3 : rho ^ 2 * (2 * eps * (n * X0)) <= rho ^ 2 * (2 * eps * X))
      by (apply Rmult_le_compat_l; lra).
    lra. }
  apply Rmult_le_reg_r in Hm; [| exact HX].
  unfold X0 in *. lra.
Qed.

Corollary lyap_real_eig_slack_div : forall rho eps pmin,
  0 < rho -> 0 <= eps -> eps < rho * pmin ->
  (forall v, pmin * N v <= Q v v) ->
  (forall v w, - eps * (N v + N w)
               <= rho * Q v v + 2 * Q w (A v) + rho * Q w w) ->
  forall v lam, 0 < N v -> A v = vscale lam v ->
    lam ^ 2 <= rho ^ 2 * ((rho * pmin + eps) / (rho * pmin - eps)).
Proof.
  intros rho eps pmin Hrho Heps Hgap Hpmin H v lam Hn Hev.
  pose proof (lyap_real_eig_slack rho eps pmin Hrho Heps Hgap Hpmin H v lam Hn Hev) as Hb.
  apply (Rmult_le_reg_r (rho * pmin - eps)); [lra|].
  replace (rho ^ 2 * ((rho * pmin + eps) / (rho * pmin - eps)) * (rho * pmin - eps))
    with (rho ^ 2 * (rho * pmin + eps)) by (field; lra).
  exact Hb.
Qed.

End Lyapunov.
