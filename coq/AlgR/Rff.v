(* C17: random Fourier features (pykoop.kernel_approximation.RandomFourierKernelApprox).

   transform():  products = X_scaled @ random_weights_            (p_j = w_j . x)
     weight_only  : Xt = sqrt(1/D) * [cos p_1..cos p_D, sin p_1..sin p_D]
     weight_offset: Xt = sqrt(1/D) * sqrt 2 * [cos (p_j + beta_j)]_j

   Here D = n_components = number of weights.  The lemmas below are stated
   over the list of "products" p (for x) and q (for y); the instantiations
   p_j = w_j * x (scalar data) and p_j = <w_j, x> (vector data) follow.      *)

From Coq Require Import Reals Lra Lia Psatz List.
Import ListNotations.
Local Open Scope R_scope.

(* ------------------------------------------------------------------ *)
(* trigonometric identities (6), (7)                                   *)

Lemma cos_cos_sin_sin : forall a b, cos a * cos b + sin a * sin b = cos (a - b).
Proof. intros. symmetry. apply cos_minus. Qed.

Lemma two_cos_cos_offset : forall a b beta,
  2 * cos (a + beta) * cos (b + beta) = cos (a - b) + cos (a + b + 2 * beta).
Proof.
  intros.
  replace (a - b) with ((a + beta) - (b + beta)) by ring.
  replace (a + b + 2 * beta) with ((a + beta) + (b + beta)) by ring.
  rewrite (cos_minus (a + beta) (b + beta)), (cos_plus (a + beta) (b + beta)). ring.
Qed.

(* ------------------------------------------------------------------ *)
(* finite sums and dot products on lists                               *)

Definition Rsum (l : list R) : R := fold_right Rplus 0 l.

Fixpoint dot (u v : list R) : R :=
  match u, v with
  | a :: u', b :: v' => a * b + dot u' v'
  | _, _ => 0
  end.

(* sum_j f p_j q_j *)
Fixpoint sum2 (f : R -> R -> R) (p q : list R) : R :=
  match p, q with
  | a :: p', b :: q' => f a b + sum2 f p' q'
  | _, _ => 0
  end.

(* sum_j f p_j q_j b_j *)
Fixpoint sum3 (f : R -> R -> R -> R) (p q b : list R) : R :=
  match p, q, b with
  | a :: p', c :: q', e :: b' => f a c e + sum3 f p' q' b'
  | _, _, _ => 0
  end.

Lemma sum2_combine : forall f p q,
  sum2 f p q = Rsum (map (fun ab => f (fst ab) (snd ab)) (combine p q)).
Proof.
  induction p as [| a p IH]; intros [| b q]; cbn; try reflexivity.
  now rewrite IH.
Qed.

Lemma sum2_ext : forall f g, (forall a b, f a b = g a b) ->
  forall p q, sum2 f p q = sum2 g p q.
Proof.
  intros f g E. induction p as [| a p IH]; intros [| b q]; cbn; try reflexivity.
  now rewrite E, IH.
Qed.

Lemma dot_sum2 : forall u v, dot u v = sum2 Rmult u v.
Proof.
  induction u as [| a u IH]; intros [| b v]; cbn; try reflexivity.
  now rewrite IH.
Qed.

Lemma dot_comm : forall u v, dot u v = dot v u.
Proof.
  induction u as [| a u IH]; intros [| b v]; cbn; try reflexivity.
  rewrite IH. ring.
Qed.

Lemma dot_app : forall u1 u2 v1 v2, length u1 = length v1 ->
  dot (u1 ++ u2) (v1 ++ v2) = dot u1 v1 + dot u2 v2.
Proof.
  induction u1 as [| a u1 IH]; intros u2 [| b v1] v2 Hl; cbn in *; try discriminate.
  - lra.
  - rewrite IH by congruence. lra.
Qed.

Lemma dot_map_map : forall (f g : R -> R) p q,
  dot (map f p) (map g q) = sum2 (fun a b => f a * g b) p q.
Proof.
  induction p as [| a p IH]; intros [| b q]; cbn; try reflexivity.
  now rewrite IH.
Qed.

Lemma sum2_plus : forall f g p q,
  sum2 (fun a b => f a b + g a b) p q = sum2 f p q + sum2 g p q.
Proof.
  induction p as [| a p IH]; intros [| b q]; cbn; try lra.
  rewrite IH. lra.
Qed.

Lemma sum2_scal : forall c f p q,
  sum2 (fun a b => c * f a b) p q = c * sum2 f p q.
Proof.
  induction p as [| a p IH]; intros [| b q]; cbn; try lra.
  rewrite IH. lra.
Qed.

Lemma sum2_const_diag : forall c p, sum2 (fun _ _ => c) p p = INR (length p) * c.
Proof.
  induction p as [| a p IH].
  - cbn. lra.
  - cbn [sum2]. rewrite IH. cbn [length]. rewrite S_INR. ring.
Qed.

(* ------------------------------------------------------------------ *)
(* (6) weight_only features                                            *)

(* feature vector with an arbitrary common scale c *)
Definition feat_wo_scaled (c : R) (p : list R) : list R :=
  map (fun t => c * cos t) p ++ map (fun t => c * sin t) p.

(* pykoop: c = sqrt (1 / n_components) *)
Definition feat_wo (p : list R) : list R :=
  feat_wo_scaled (sqrt (1 / INR (length p))) p.

Lemma feat_wo_length : forall p, length (feat_wo p) = (2 * length p)%nat.
Proof.
  intros. unfold feat_wo, feat_wo_scaled. rewrite app_length, !map_length. lia.
Qed.

Lemma feat_wo_scaled_dot : forall c p q, length p = length q ->
  dot (feat_wo_scaled c p) (feat_wo_scaled c q)
  = c * c * sum2 (fun a b => cos (a - b)) p q.
Proof.
  intros c p q Hl. unfold feat_wo_scaled.
  rewrite dot_app by (rewrite !map_length; exact Hl).
  rewrite !dot_map_map, <- sum2_plus, <- sum2_scal.
  apply sum2_ext. intros a b. rewrite <- cos_cos_sin_sin. ring.
Qed.

Lemma sqrt_inv_sq : forall n, (0 < n)%nat ->
  sqrt (1 / INR n) * sqrt (1 / INR n) = 1 / INR n.
Proof.
  intros n Hn. apply sqrt_def.
  assert (0 < INR n) by (apply lt_0_INR; exact Hn).
  unfold Rdiv. rewrite Rmult_1_l. left. apply Rinv_0_lt_compat. assumption.
Qed.

(* the sum form requested in (6): the (cos cos + sin sin) average equals the
   cos-of-difference average *)
Theorem rff_sum_identity : forall p q,
  (1 / INR (length p)) * sum2 (fun a b => cos a * cos b + sin a * sin b) p q
  = (1 / INR (length p)) * sum2 (fun a b => cos (a - b)) p q.
Proof.
  intros. f_equal. apply sum2_ext. intros. apply cos_cos_sin_sin.
Qed.

(* kernel estimate:  z(x) . z(y) = (1/D) sum_j cos (p_j - q_j) *)
Theorem rff_weight_only_dot : forall p q,
  length p = length q -> (0 < length p)%nat ->
  dot (feat_wo p) (feat_wo q)
  = (1 / INR (length p)) * sum2 (fun a b => cos (a - b)) p q.
Proof.
  intros p q Hl Hpos. unfold feat_wo. rewrite <- Hl.
  rewrite feat_wo_scaled_dot by exact Hl.
  rewrite sqrt_inv_sq by exact Hpos. reflexivity.
Qed.

Lemma sum2_diag_ext : forall f g, (forall a, f a a = g a a) ->
  forall p, sum2 f p p = sum2 g p p.
Proof.
  intros f g E. induction p as [| a p IH]; cbn; [reflexivity|].
  now rewrite E, IH.
Qed.

(* squared norm exactly 1 *)
Theorem rff_weight_only_norm : forall p, (0 < length p)%nat ->
  dot (feat_wo p) (feat_wo p) = 1.
Proof.
  intros p Hpos. rewrite rff_weight_only_dot by auto.
  rewrite (sum2_diag_ext _ (fun _ _ => 1)).
  - rewrite sum2_const_diag. field.
    apply not_0_INR. lia.
  - intros a. replace (a - a) with 0 by ring. apply cos_0.
Qed.

(* every feature is bounded by sqrt(1/D) in absolute value *)
Lemma feat_wo_bounded : forall p t, In t (feat_wo p) ->
  Rabs t <= sqrt (1 / INR (length p)).
Proof.
  intros p t Hin. unfold feat_wo, feat_wo_scaled in Hin.
  set (c := sqrt (1 / INR (length p))) in *.
  assert (Hc : 0 <= c) by apply sqrt_pos.
  apply in_app_or in Hin. destruct Hin as [Hin | Hin];
    apply in_map_iff in Hin; destruct Hin as [s [<- _]];
    rewrite Rabs_mult, (Rabs_right c) by lra.
  - pose proof (COS_bound s) as [? ?].
    assert (Rabs (cos s) <= 1) by (apply Rabs_le; lra). nra.
  - pose proof (SIN_bound s) as [? ?].
    assert (Rabs (sin s) <= 1) by (apply Rabs_le; lra). nra.
Qed.

(* --- instantiation: scalar data, p_j = w_j * x --- *)
Definition products1 (ws : list R) (x : R) : list R := map (fun w => w * x) ws.

Theorem rff_weight_only_scalar : forall ws x y, (0 < length ws)%nat ->
  dot (feat_wo (products1 ws x)) (feat_wo (products1 ws y))
  = (1 / INR (length ws)) * Rsum (map (fun w => cos (w * (x - y))) ws).
Proof.
  intros ws x y Hpos.
  rewrite rff_weight_only_dot by (unfold products1; rewrite !map_length; auto).
  unfold products1 at 1. rewrite map_length. f_equal.
  unfold products1. clear Hpos.
  induction ws as [| w ws IH]; cbn; [reflexivity|].
  rewrite IH. f_equal. f_equal. ring.
Qed.

Theorem rff_sum_identity_scalar : forall ws x y,
  (1 / INR (length ws)) *
    Rsum (map (fun w => cos (w * x) * cos (w * y) + sin (w * x) * sin (w * y)) ws)
  = (1 / INR (length ws)) * Rsum (map (fun w => cos (w * (x - y))) ws).
Proof.
  intros. f_equal. unfold Rsum. induction ws as [| w ws IH]; cbn; [reflexivity|].
  rewrite IH. f_equal. rewrite cos_cos_sin_sin. f_equal. ring.
Qed.

(* --- instantiation: vector data, p_j = <x, w_j> --- *)
Fixpoint vsub (x y : list R) : list R :=
  match x, y with
  | a :: x', b :: y' => (a - b) :: vsub x' y'
  | _, _ => []
  end.

Lemma dot_vsub_l : forall x y w, length x = length y ->
  dot (vsub x y) w = dot x w - dot y w.
Proof.
  induction x as [| a x IH]; intros [| b y] w Hl; cbn in *; try discriminate.
  - lra.
  - destruct w as [| c w]; [lra|]. rewrite IH by congruence. ring.
Qed.

Definition productsN (Ws : list (list R)) (x : list R) : list R :=
  map (fun w => dot x w) Ws.

Theorem rff_weight_only_vector : forall Ws x y,
  (0 < length Ws)%nat -> length x = length y ->
  dot (feat_wo (productsN Ws x)) (feat_wo (productsN Ws y))
  = (1 / INR (length Ws)) * Rsum (map (fun w => cos (dot (vsub x y) w)) Ws).
Proof.
  intros Ws x y Hpos Hl.
  rewrite rff_weight_only_dot by (unfold productsN; rewrite !map_length; auto).
  unfold productsN at 1. rewrite map_length. f_equal.
  unfold productsN. clear Hpos.
  induction Ws as [| w Ws IH]; cbn; [reflexivity|].
  rewrite IH. f_equal. f_equal. rewrite dot_vsub_l by exact Hl. reflexivity.
Qed.

(* ------------------------------------------------------------------ *)
(* (7) weight_offset features                                          *)

Fixpoint feat_off_scaled (c : R) (p b : list R) : list R :=
  match p, b with
  | t :: p', beta :: b' => c * (sqrt 2 * cos (t + beta)) :: feat_off_scaled c p' b'
  | _, _ => []
  end.

Definition feat_off (p b : list R) : list R :=
  feat_off_scaled (sqrt (1 / INR (length p))) p b.

Lemma feat_off_scaled_dot : forall c p q b,
  length p = length q -> length p = length b ->
  dot (feat_off_scaled c p b) (feat_off_scaled c q b)
  = c * c * (sum2 (fun a e => cos (a - e)) p q
             + sum3 (fun a e beta => cos (a + e + 2 * beta)) p q b).
Proof.
  intros c. induction p as [| a p IH]; intros [| e q] [| beta b] H1 H2;
    cbn in *; try discriminate; try lra.
  rewrite IH by congruence.
  pose proof (two_cos_cos_offset a e beta) as Ht.
  pose proof (sqrt_def 2 ltac:(lra)) as H2s.
  transitivity (c * c * ((sqrt 2 * sqrt 2) * cos (a + beta) * cos (e + beta))
                + c * c * (sum2 (fun a e => cos (a - e)) p q
                   + sum3 (fun a e beta => cos (a + e + 2 * beta)) p q b)).
  - ring.
  - rewrite H2s, Ht. ring.
Qed.

(* z(x).z(y) = kernel estimate + offset term *)
Theorem rff_weight_offset_dot : forall p q b,
  length p = length q -> length p = length b -> (0 < length p)%nat ->
  dot (feat_off p b) (feat_off q b)
  = (1 / INR (length p)) * sum2 (fun a e => cos (a - e)) p q
    + (1 / INR (length p)) * sum3 (fun a e beta => cos (a + e + 2 * beta)) p q b.
Proof.
  intros p q b H1 H2 Hpos. unfold feat_off. rewrite <- H1.
  rewrite feat_off_scaled_dot by assumption.
  rewrite sqrt_inv_sq by exact Hpos. ring.
Qed.

(* ------------------------------------------------------------------ *)
(* (8) the offset term has zero mean over a uniform phase in [0, 2 PI]:
       antiderivative form (the Riemann-integral form is in RffInt.v)   *)

Definition offset_primitive (c beta : R) : R := sin (c + 2 * beta) / 2.

Lemma offset_primitive_periodic : forall c,
  offset_primitive c (2 * PI) - offset_primitive c 0 = 0.
Proof.
  intros c. unfold offset_primitive.
  replace (c + 2 * (2 * PI)) with (c + 2 * 0 + 2 * INR 2 * PI) by (simpl; ring).
  rewrite sin_period. lra.
Qed.

Lemma offset_primitive_periodic_explicit : forall c,
  sin (c + 2 * (2 * PI)) / 2 - sin (c + 2 * 0) / 2 = 0.
Proof. exact offset_primitive_periodic. Qed.

Lemma derivable_pt_lim_ext_fun : forall f g x l,
  (forall t, f t = g t) -> derivable_pt_lim f x l -> derivable_pt_lim g x l.
Proof.
  intros f g x l E H eps He. destruct (H eps He) as [d Hd].
  exists d. intros h Hh1 Hh2. rewrite <- !E. apply Hd; assumption.
Qed.

Lemma offset_primitive_derive : forall c beta,
  derivable_pt_lim (offset_primitive c) beta (cos (c + 2 * beta)).
Proof.
  intros c beta.
  assert (H1 : derivable_pt_lim (fct_cte c + mult_real_fct 2 id)%F beta (0 + 2 * 1)).
  { apply derivable_pt_lim_plus.
    - apply derivable_pt_lim_const.
    - apply derivable_pt_lim_scal. apply derivable_pt_lim_id. }
  pose proof (derivable_pt_lim_comp (fct_cte c + mult_real_fct 2 id)%F sin beta
                (0 + 2 * 1) (cos (c + 2 * beta)) H1) as H2.
  assert (H3 : derivable_pt_lim sin ((fct_cte c + mult_real_fct 2 id)%F beta)
                 (cos (c + 2 * beta))).
  { unfold plus_fct, fct_cte, mult_real_fct, id. apply derivable_pt_lim_sin. }
  specialize (H2 H3).
  pose proof (derivable_pt_lim_scal _ (/ 2) _ _ H2) as H4.
  replace (/ 2 * (cos (c + 2 * beta) * (0 + 2 * 1))) with (cos (c + 2 * beta)) in H4
    by field.
  eapply derivable_pt_lim_ext_fun; [| exact H4].
  intros t. unfold offset_primitive, mult_real_fct, comp, plus_fct, fct_cte, id.
  field.
Qed.

(* Newton-integral form (stdlib NewtonInt; stays within the three standard
   Reals axioms, whereas both stdlib RiemannInt and Coquelicot RInt also pull
   in Classical_Prop.classic). *)
Lemma offset_antiderivative : forall c,
  antiderivative (fun beta => cos (c + 2 * beta)) (offset_primitive c) 0 (2 * PI).
Proof.
  intros c. split.
  - intros x _.
    exists (exist _ (cos (c + 2 * x)) (offset_primitive_derive c x)).
    reflexivity.
  - pose proof PI_RGT_0. lra.
Qed.

Definition offset_newton_integrable (c : R) :
  Newton_integrable (fun beta => cos (c + 2 * beta)) 0 (2 * PI) :=
  exist _ (offset_primitive c) (or_introl (offset_antiderivative c)).

Theorem NewtonInt_offset_zero : forall c,
  NewtonInt (fun beta => cos (c + 2 * beta)) 0 (2 * PI) (offset_newton_integrable c) = 0.
Proof. intros c. cbn. apply offset_primitive_periodic. Qed.

(* consequently  int_0^{2 PI} cos (c + 2 beta) d beta
                 = offset_primitive c (2 PI) - offset_primitive c 0 = 0,
   i.e. E_beta [ cos (a + b + 2 beta) ] = 0 for beta ~ U[0, 2 PI] and
   E_beta [ 2 cos (a + beta) cos (b + beta) ] = cos (a - b).
   The Riemann-integral statements are proved in RffInt.v (Coquelicot). *)
