(* C10: from the quadratic-form reading of the 4x4 block that pykoop's H-infinity builders hand to
   the solver (Alg/LmiQuad.hinf_block_quad)

     F(a,b,c,d) = a^T P a + 2 (A^T a)^T P b + 2 <B^T a, c> + b^T P b + 2 b^T P (C^T d)
                  + g <c,c> + 2 <c, D^T d> + g <d,d>     >= 0   for all a, b, c, d

   to a one-step dissipation inequality - WITHOUT inverting P.  The code's block is the standard
   bounded-real LMI of the DUAL system

        x+ = A^T x + C^T w,      z = B^T x + D^T w,

   and instantiating b := -(A^T a + C^T d), c := -(1/g)(B^T a + D^T d) gives

        V(x+) - V(x) <= g |w|^2 - (1/g) |z|^2 ,     V(x) = x^T P x,

   hence (Dissip.l2_gain_sum) for every input sequence and horizon
        sum |z_k|^2 <= g^2 sum |w_k|^2 + g V(x_0):   the l2 gain of the dual system is at most g.
   (The H-infinity norm of a system and of its dual coincide, sigma_max(G^T) = sigma_max(G); that and
   the identification of the l2 gain with the H-infinity norm are frequency-domain facts not
   formalised here.)  Abstract bilinear setting as in Dissip.v; only symmetry / bilinearity used. *)
From Coq Require Import Reals Lra List.
From PK.AlgR Require Import Dissip.
Import ListNotations.
Local Open Scope R_scope.

Section BoundedRealDual.
Variable X W Z : Type.                       (* dual state, dual input (= plant output space), dual output (= plant input space) *)
Variable xadd : X -> X -> X.  Variable xscale : R -> X -> X.
Variable zadd : Z -> Z -> Z.  Variable zscale : R -> Z -> Z.
Variable Q : X -> X -> R.                    (* (u, v) |-> u^T P v *)
Variable ipZ : Z -> Z -> R.                  (* inner product on the dual output space *)
Variable ipW : W -> W -> R.
Variable At : X -> X.                        (* x |-> A^T x *)
Variable Ct : W -> X.                        (* w |-> C^T w *)
Variable Bt : X -> Z.                        (* x |-> B^T x *)
Variable Dt : W -> Z.                        (* w |-> D^T w *)

Hypothesis Q_sym : forall u v, Q u v = Q v u.
Hypothesis Q_add_l : forall u v w, Q (xadd u v) w = Q u w + Q v w.
Hypothesis Q_scale_l : forall c u v, Q (xscale c u) v = c * Q u v.
Hypothesis ipZ_sym : forall u v, ipZ u v = ipZ v u.
Hypothesis ipZ_add_l : forall u v w, ipZ (zadd u v) w = ipZ u w + ipZ v w.
Hypothesis ipZ_scale_l : forall c u v, ipZ (zscale c u) v = c * ipZ u v.

Definition dual_step (x : X) (w : W) : X := xadd (At x) (Ct w).
Definition dual_out (x : X) (w : W) : Z := zadd (Bt x) (Dt w).

(* the block's quadratic form (cf. Alg/LmiQuad.hinf_block_quad, P symmetric) *)
Definition hinf_form (g : R) (a b : X) (c : Z) (d : W) : R :=
  Q a a + 2 * Q (At a) b + 2 * ipZ (Bt a) c + Q b b + 2 * Q b (Ct d)
  + g * ipZ c c + 2 * ipZ c (Dt d) + g * ipW d d.

Lemma hinf_form_at_min : forall g a d, g <> 0 ->
  hinf_form g a (xscale (-1) (dual_step a d)) (zscale (- / g) (dual_out a d)) d
  = Q a a - Q (dual_step a d) (dual_step a d) - / g * ipZ (dual_out a d) (dual_out a d) + g * ipW d d.
Proof.
  intros g a d Hg. unfold hinf_form.
  set (xp := dual_step a d). set (z := dual_out a d).
  assert (E1 : Q (At a) (xscale (-1) xp) + Q (xscale (-1) xp) (Ct d) = - Q xp xp).
  { rewrite (Q_sym (At a)), !Q_scale_l. rewrite (Q_sym xp (At a)).
    replace (-1 * Q (At a) xp + -1 * Q xp (Ct d)) with (- (Q (At a) xp + Q (Ct d) xp)) by (rewrite (Q_sym xp (Ct d)); ring).
    rewrite <- Q_add_l. reflexivity. }
  assert (E2 : Q (xscale (-1) xp) (xscale (-1) xp) = Q xp xp).
  { rewrite Q_scale_l, (Q_sym xp), Q_scale_l. ring. }
  assert (E3 : ipZ (Bt a) (zscale (- / g) z) + ipZ (zscale (- / g) z) (Dt d) = - / g * ipZ z z).
  { rewrite (ipZ_sym (Bt a)), !ipZ_scale_l. rewrite (ipZ_sym z (Bt a)).
    replace (- / g * ipZ (Bt a) z + - / g * ipZ z (Dt d)) with (- / g * (ipZ (Bt a) z + ipZ (Dt d) z))
      by (rewrite (ipZ_sym z (Dt d)); ring).
    rewrite <- ipZ_add_l. reflexivity. }
  assert (E4 : g * ipZ (zscale (- / g) z) (zscale (- / g) z) = / g * ipZ z z).
  { rewrite ipZ_scale_l, (ipZ_sym z), ipZ_scale_l. field. exact Hg. }
  replace (Q a a + 2 * Q (At a) (xscale (-1) xp) + 2 * ipZ (Bt a) (zscale (- / g) z)
           + Q (xscale (-1) xp) (xscale (-1) xp) + 2 * Q (xscale (-1) xp) (Ct d)
           + g * ipZ (zscale (- / g) z) (zscale (- / g) z) + 2 * ipZ (zscale (- / g) z) (Dt d) + g * ipW d d)
    with (Q a a + 2 * (Q (At a) (xscale (-1) xp) + Q (xscale (-1) xp) (Ct d))
          + Q (xscale (-1) xp) (xscale (-1) xp)
          + 2 * (ipZ (Bt a) (zscale (- / g) z) + ipZ (zscale (- / g) z) (Dt d))
          + g * ipZ (zscale (- / g) z) (zscale (- / g) z) + g * ipW d d) by ring.
  rewrite E1, E2, E3, E4. ring.
Qed.

(* the block LMI gives the one-step dissipation inequality of the dual system *)
Theorem hinf_block_one_step : forall g, 0 < g ->
  (forall a b c d, 0 <= hinf_form g a b c d) ->
  forall x w, Q (dual_step x w) (dual_step x w) - Q x x
              <= g * ipW w w - / g * ipZ (dual_out x w) (dual_out x w).
Proof.
  intros g Hg H x w.
  pose proof (H x (xscale (-1) (dual_step x w)) (zscale (- / g) (dual_out x w)) w) as H1.
  rewrite hinf_form_at_min in H1 by lra. lra.
Qed.

(* ... and, summed along any trajectory of the dual system: l2 gain at most g *)
Theorem hinf_block_l2_gain : forall g, 0 < g ->
  (forall x, 0 <= Q x x) ->
  (forall a b c d, 0 <= hinf_form g a b c d) ->
  forall (ws : list W) (x0 : X),
  traj_sum X W dual_step (fun x w => ipZ (dual_out x w) (dual_out x w)) ws x0
  <= g ^ 2 * traj_sum X W dual_step (fun _ w => ipW w w) ws x0 + g * Q x0 x0.
Proof.
  intros g Hg Hpos H ws x0.
  (* storage g * V, supply g^2 |w|^2 - |z|^2 *)
  assert (Hstep : forall x w, g * Q (dual_step x w) (dual_step x w) - g * Q x x
                              <= g ^ 2 * ipW w w - ipZ (dual_out x w) (dual_out x w)).
  { intros x w. pose proof (hinf_block_one_step g Hg H x w) as H1.
    assert (H2 : g * (Q (dual_step x w) (dual_step x w) - Q x x)
                 <= g * (g * ipW w w - / g * ipZ (dual_out x w) (dual_out x w)))
      by (apply Rmult_le_compat_l; lra).
    replace (g * (g * ipW w w - / g * ipZ (dual_out x w) (dual_out x w)))
      with (g ^ 2 * ipW w w - ipZ (dual_out x w) (dual_out x w)) in H2 by (field; lra).
    lra. }
  pose proof (dissipation_sum X W dual_step (fun x => g * Q x x)
                (fun x w => g ^ 2 * ipW w w - ipZ (dual_out x w) (dual_out x w)) Hstep ws x0) as HS.
  cbv beta in HS.
  assert (Hsplit : forall us x,
            traj_sum X W dual_step (fun x w => g ^ 2 * ipW w w - ipZ (dual_out x w) (dual_out x w)) us x
            = g ^ 2 * traj_sum X W dual_step (fun _ w => ipW w w) us x
              - traj_sum X W dual_step (fun x w => ipZ (dual_out x w) (dual_out x w)) us x).
  { induction us as [|u us IH]; intros x; cbn; [ring|]. rewrite IH. ring. }
  rewrite Hsplit in HS.
  pose proof (Hpos (fold_left dual_step ws x0)) as Hend.
  assert (0 <= g * Q (fold_left dual_step ws x0) (fold_left dual_step ws x0)) by (apply Rmult_le_pos; lra).
  lra.
Qed.

End BoundedRealDual.
