(* Per-sample semantics of the numpy expressions that tools/gen_numeric.py
   translates (one data row = list R; a weight matrix / centre array = list of
   its columns / rows).  Definitions and their basic laws only. *)
From Coq Require Import Reals Lra List.
From PK.AlgR Require Import Rff.
Import ListNotations.
Local Open Scope R_scope.

Definition vscale (c : R) (v : list R) : list R := map (Rmult c) v.
Definition vadds (v : list R) (s : R) : list R := map (fun t => t + s) v.
Fixpoint vadd (u v : list R) : list R :=
  match u, v with
  | a :: u', b :: v' => (a + b) :: vadd u' v'
  | _, _ => []
  end.
(* x @ W, with W given as the list of its columns *)
Definition rowmat (x : list R) (Wcols : list (list R)) : list R := map (dot x) Wcols.
Definition vnorm (v : list R) : R := sqrt (dot v v).
(* X[:, np.newaxis, :] - C : one difference vector per centre (row of C) *)
Definition bdiff (x : list R) (C : list (list R)) : list (list R) := map (vsub x) C.
(* np.piecewise(r, [r < 1], [f, 0]) on a scalar *)
Definition piecewise_lt1 (f : R -> R) (r : R) : R :=
  if Rlt_dec r 1 then f r else 0.

Lemma vscale_length : forall c v, length (vscale c v) = length v.
Proof. intros; apply map_length. Qed.

Lemma dot_vscale_l : forall c x w, dot (vscale c x) w = c * dot x w.
Proof.
  intros c x; unfold vscale; induction x as [|a x IH]; intros [|b w]; cbn; try ring.
  rewrite IH. ring.
Qed.

Lemma vsub_length : forall x y, length x = length y -> length (vsub x y) = length x.
Proof.
  induction x as [|a x IH]; intros [|b y] H; cbn in *; try discriminate; auto.
Qed.

Lemma vscale_vsub : forall c x y, vsub (vscale c x) (vscale c y) = vscale c (vsub x y).
Proof.
  intros c x; unfold vscale; induction x as [|a x IH]; intros [|b y]; cbn; try reflexivity.
  rewrite IH. f_equal. ring.
Qed.

Lemma dot_self_nonneg : forall v, 0 <= dot v v.
Proof.
  induction v as [|a v IH]; cbn; [lra|]. pose proof (Rle_0_sqr a) as H. unfold Rsqr in H. lra.
Qed.

Lemma vnorm_nonneg : forall v, 0 <= vnorm v.
Proof. intros; apply sqrt_pos. Qed.

Lemma vsub_self : forall x, dot (vsub x x) (vsub x x) = 0.
Proof. induction x as [|a x IH]; cbn; [reflexivity|]. rewrite IH. ring. Qed.

Lemma vnorm_vsub_self : forall x, vnorm (vsub x x) = 0.
Proof. intros; unfold vnorm. rewrite vsub_self. apply sqrt_0. Qed.

Lemma dot_vsub_sym : forall x y, dot (vsub x y) (vsub x y) = dot (vsub y x) (vsub y x).
Proof.
  induction x as [|a x IH]; intros [|b y]; cbn; try reflexivity.
  rewrite IH. ring.
Qed.

Lemma vnorm_vsub_sym : forall x y, vnorm (vsub x y) = vnorm (vsub y x).
Proof. intros; unfold vnorm. now rewrite dot_vsub_sym. Qed.

Lemma vadd_length : forall u v, length u = length v -> length (vadd u v) = length u.
Proof.
  induction u as [|a u IH]; intros [|b v] H; cbn in *; try discriminate; auto.
Qed.
