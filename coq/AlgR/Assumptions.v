(* Print Assumptions for the main theorems of PK.AlgR *)
From Coq Require Import Reals.
From PK.AlgR Require Import Lyapunov Dissip Rff RffInt Range Instances.
Print Assumptions lyap_contraction.
Print Assumptions lyap_contraction_strict.
Print Assumptions lyap_real_eig.
Print Assumptions lyap_complex_eig.
Print Assumptions lyap_real_eig_strict_nz.
Print Assumptions lyap_complex_eig_strict_nz.
Print Assumptions lyap_contraction_slack.
Print Assumptions lyap_real_eig_slack_div.
Print Assumptions dissipation_sum.
Print Assumptions l2_gain_sum.
Print Assumptions l2_gain_sum_xi.
Print Assumptions lmi_one_step_dissipation.
Print Assumptions lmi_dissipation_sum.
Print Assumptions lmi_l2_gain_default.
Print Assumptions schur_complement_form_fun.
Print Assumptions cos_cos_sin_sin.
Print Assumptions two_cos_cos_offset.
Print Assumptions rff_weight_only_dot.
Print Assumptions rff_weight_only_norm.
Print Assumptions rff_weight_only_vector.
Print Assumptions rff_weight_offset_dot.
Print Assumptions offset_primitive_periodic_explicit.
Print Assumptions offset_primitive_derive.
Print Assumptions NewtonInt_offset_zero.
Print Assumptions RInt_offset_zero.
Print Assumptions mean_two_cos_cos.
Print Assumptions affine_in_range.
Print Assumptions Rabs_le_sym_range.
Print Assumptions linspace_in_range.
Print Assumptions feature_range_covers.
Print Assumptions grid_center_in_feature_range.
Print Assumptions lmi_l2_gain_R2.
