(* L2/L4 — raw-matrix view (episode label as column 0), the lift / retract
   helper family of KoopmanLiftingFn (koopman_pipeline.py:136-372, after the
   "fix:" that resolves episode_feature=None), KoopmanRegressor.predict,
   KoopmanPipeline.predict and predict_trajectory (both loops).
   Definitions only. *)
From Coq Require Import List ZArith NArith Bool Arith.
From PK Require Import PyList Episodes Stage.
Import ListNotations.

Set Implicit Arguments.

Section Helpers.
Variable T : Type.
Variable O : ops T.
Notation t0 := (op_t0 O).
Notation t1 := (op_t1 O).
Notation tadd := (op_add O).
Notation tmul := (op_mul O).
Notation inj := (op_inj O).
Notation lab := (op_lab O).

Notation raw := (list (list T)).
Notation stage := (stage T).

Definition of_raw (ep : bool) (R : raw) : dmat T :=
  if ep then map (fun r => (lab (hd t0 r), tl r)) R
  else map (fun r => (0%N, r)) R.
Definition to_raw (ep : bool) (X : dmat T) : raw :=
  if ep then map (fun lr => inj (fst lr) :: snd lr) X else map (@snd _ _) X.

Definition tf (s : stage) (ep : bool) (d : dims) (X : dmat T) : dmat T :=
  transform O s ep d X.
Definition itf (s : stage) (ep : bool) (d : dims) (X : dmat T) : dmat T :=
  inverse O s ep d X.

(* a fitted estimator: stage, fit-time episode flag, fit-time dims *)
Record fitted := { f_stage : stage; f_ep : bool; f_dims : dims }.

Definition f_out (f : fitted) : dims := sdims (f_stage f) (f_dims f).

Definition transform_raw (f : fitted) (R : raw) : raw :=
  to_raw (f_ep f) (tf (f_stage f) (f_ep f) (f_dims f) (of_raw (f_ep f) R)).
Definition inverse_raw (f : fitted) (R : raw) : raw :=
  to_raw (f_ep f) (itf (f_stage f) (f_ep f) (f_dims f) (of_raw (f_ep f) R)).

(* lift / retract: pad or strip the episode column when the call-time flag
   differs from the fit-time one *)
Definition with_flag (f : fitted) (g : raw -> raw) (call : option bool) (R : raw) : raw :=
  match call with
  | None => g R
  | Some c =>
      if Bool.eqb c (f_ep f) then g R
      else if f_ep f then
             (* fitted with an episode feature, called without: fake column *)
             map (@tl T) (g (map (fun r => t0 :: r) R))
           else
             (* fitted without, called with: per episode, then recombine *)
             to_raw true (map_episodes true g (of_raw true R))
  end.

Definition lift (f : fitted) := with_flag f (transform_raw f).
Definition retract (f : fitted) := with_flag f (inverse_raw f).

Definition eff (f : fitted) (call : option bool) : bool :=
  match call with None => f_ep f | Some c => c end.
Definition b2n (b : bool) : nat := if b then 1 else 0.

Definition lift_state (f : fitted) (call : option bool) (R : raw) : raw :=
  let c := eff f call in
  let Rpad := map (fun r => r ++ repeat t0 (snd (f_dims f))) R in
  map (firstn (fst (f_out f) + b2n c)) (lift f (Some c) Rpad).

Definition retract_state (f : fitted) (call : option bool) (R : raw) : raw :=
  let c := eff f call in
  let Rpad := map (fun r => r ++ repeat t0 (snd (f_out f))) R in
  map (firstn (fst (f_dims f) + b2n c)) (retract f (Some c) Rpad).

Definition lift_input (f : fitted) (call : option bool) (R : raw) : raw :=
  let c := eff f call in
  let Rt := lift f (Some c) R in
  if c then map (fun r => firstn 1 r ++ skipn (fst (f_out f) + 1) r) Rt
  else map (skipn (fst (f_out f))) Rt.

Definition retract_input (f : fitted) (call : option bool) (R : raw) : raw :=
  let c := eff f call in
  let z := repeat t0 (fst (f_out f)) in
  let Rpad := if c then map (fun r => firstn 1 r ++ z ++ skipn 1 r) R
              else map (fun r => z ++ r) R in
  let Rt := retract f (Some c) Rpad in
  if c then map (fun r => firstn 1 r ++ skipn (fst (f_dims f) + 1) r) Rt
  else map (skipn (fst (f_dims f))) Rt.

(* ---------------------------------------------------------------- prediction *)
(* row vector times matrix given as a list of rows: sum_k r_k * M_k *)
Definition vecmat (n : nat) (r : list T) (M : list (list T)) : list T :=
  fold_right (map2 tadd) (repeat t0 n) (map2 (fun x m => map (tmul x) m) r M).

(* KoopmanRegressor.predict on a lifted matrix: X_i @ coef_ per episode *)
Definition reg_predict (f : fitted) (coef : list (list T)) (X : dmat T) : dmat T :=
  map_episodes (f_ep f) (map (fun r => vecmat (fst (f_out f)) r coef)) X.

(* KoopmanPipeline.predict *)
Definition predict (f : fitted) (coef : list (list T)) (R : raw) : raw :=
  let Xt := tf (f_stage f) (f_ep f) (f_dims f) (of_raw (f_ep f) R) in
  let Xp := reg_predict f coef Xt in
  let Xpad := rowwise (fun r => r ++ repeat t0 (snd (f_out f))) Xp in   (* no-op when n_inputs_out_ = 0 *)
  let Xi := to_raw (f_ep f) (itf (f_stage f) (f_ep f) (f_dims f) Xpad) in
  if Nat.eqb (snd (f_dims f)) 0 then Xi
  else map (firstn (b2n (f_ep f) + fst (f_dims f))) Xi.

(* one Koopman step in lifted coordinates: [theta, upsilon] @ coef_ *)
Definition kstep (f : fitted) (coef : list (list T)) (theta ups : list T) : list T :=
  vecmat (fst (f_out f)) (theta ++ ups) coef.

Definition last_row (R : raw) : list T := last R [].

(* the local re-lifting step: from a window of w states and inputs to the next state *)
Definition relift_next (f : fitted) (coef : list (list T)) (Xw Uw : raw) : list T :=
  let Theta := lift_state f (Some false) Xw in
  let Ups := lift_input f (Some false) (hstack Xw Uw) in
  let Theta_k := map2 (kstep f coef) Theta Ups in
  last_row (retract_state f (Some false) Theta_k).

Fixpoint set_row (k : nat) (x : list T) (R : raw) : raw :=
  match k, R with
  | _, [] => []
  | 0, _ :: t => x :: t
  | S k', a :: t => a :: set_row k' x t
  end.

Definition window (w k : nat) (R : raw) : raw := firstn w (skipn k R).

(* relift_state=True loop: the array X_i is updated in place *)
Definition relift_loop (f : fitted) (coef : list (list T)) (w : nat) (U : raw) (X0 : raw) : raw :=
  let n := length U in
  let ns := fst (f_dims f) in
  let init := X0 ++ repeat (repeat t0 ns) (n - w) in       (* zeros, X_i[:w] = X0_i *)
  fold_left (fun X k => set_row k (relift_next f coef (window w (k - w) X) (window w (k - w) U)) X)
            (seq w (n - w)) init.

(* relift_state=False loop: lifted state propagated, inputs lifted from retracted state *)
Record nr_state := { nr_X : raw; nr_Theta : raw; nr_Ups : raw }.

Definition norelift_loop (f : fitted) (coef : list (list T)) (w : nat) (U : raw) (X0 : raw) : nr_state :=
  let n := length U in
  let m := n - w + 1 in                                      (* n_steps_i *)
  let ns := fst (f_dims f) in
  let init := {| nr_X := X0 ++ repeat (repeat t0 ns) (n - w);
                 nr_Theta := firstn 1 (lift_state f (Some false) X0)
                             ++ repeat (repeat t0 (fst (f_out f))) (m - 1);
                 nr_Ups := repeat (repeat t0 (snd (f_out f))) m |} in
  fold_left
    (fun st k =>
       let Xw := window w (k - 1) (nr_X st) in
       let Uw := window w (k - 1) U in
       let ups := last_row (lift_input f (Some false) (hstack Xw Uw)) in
       let Ups' := set_row (k - 1) ups (nr_Ups st) in
       if Nat.ltb k m then
         let th := kstep f coef (nth (k - 1) (nr_Theta st) []) ups in
         let Theta' := set_row k th (nr_Theta st) in
         let x := last_row (retract_state f (Some false) [th]) in
         {| nr_X := set_row (k + w - 1) x (nr_X st); nr_Theta := Theta'; nr_Ups := Ups' |}
       else {| nr_X := nr_X st; nr_Theta := nr_Theta st; nr_Ups := Ups' |})
    (seq 1 m) init.

(* one episode of predict_trajectory, the four return modes *)
Definition predict_ep (f : fitted) (coef : list (list T)) (w : nat)
           (relift ret_lifted ret_input : bool) (X0 U : raw) : raw :=
  if relift then
    let X := relift_loop f coef w U X0 in
    if ret_lifted then
      let Theta := lift_state f (Some false) X in
      if ret_input then hstack Theta (lift_input f (Some false) (hstack X U)) else Theta
    else if ret_input then hstack X U else X
  else
    let st := norelift_loop f coef w U X0 in
    if ret_lifted then
      if ret_input then hstack (nr_Theta st) (nr_Ups st) else nr_Theta st
    else if ret_input then hstack (nr_X st) U else nr_X st.

(* _split_state_input_episodes + the loop over episodes + combine *)
Definition predict_trajectory (f : fitted) (coef : list (list T)) (w : nat)
           (relift ret_lifted ret_input : bool) (call : option bool)
           (X0_or_X : raw) (U : option raw) : raw :=
  let c := eff f call in
  let ns := fst (f_dims f) in
  let eps : list (N * (raw * raw)) :=
    match U with
    | None =>
        map (fun e => (fst e, (map (firstn ns) (firstn w (snd e)), map (skipn ns) (snd e))))
            (split c (of_raw c X0_or_X))
    | Some Ur =>
        map (fun xu => (fst (fst xu), (snd (fst xu), snd (snd xu))))
            (zip (split c (of_raw c X0_or_X)) (split c (of_raw c Ur)))
    end in
  to_raw c (combine c
    (map (fun e => (fst e, predict_ep f coef w relift ret_lifted ret_input (fst (snd e)) (snd (snd e)))) eps)).

End Helpers.
