(* Theorems on the alternation loop of Altern.v, for every oracle, every stop-flag
   history and every max_iter (induction on the fuel). *)
From Coq Require Import List Arith Bool Lia Sorted.
From PK Require Import Altern.
Import ListNotations.

Section Facts.
Variables XA XB O : Type.
Variable solveA : nat -> XB -> resA XA O.
Variable solveB : nat -> XA -> resB XB.
Variable stop : nat -> bool.
Variable close : O -> O -> bool.
Notation loop_tr := (loop_tr solveA solveB stop close).
Notation fit := (fit solveA solveB stop close).

(* ---------- the returned pair satisfies the constraint the solver certified ----------
   Inv x p : "x together with p satisfies the LMI".  Contract of the oracle: an answer
   it calls optimal is feasible. *)
Variable Inv : XA -> XB -> Prop.
Hypothesis solveA_feasible : forall k p x obj, solveA k p = OptA x obj -> Inv x p.
Hypothesis solveB_feasible : forall k x p, solveB k x = OptB p -> Inv x p.

Lemma loop_invariant : forall fuel k x p log tr,
  Inv x p -> Inv (o_x (loop_tr fuel k x p log tr)) (o_p (loop_tr fuel k x p log tr)).
Proof.
  induction fuel as [|fuel IH]; intros k x p log tr H; cbn [Altern.loop_tr]; [exact H|].
  destruct (stop (2 * k)); [exact H|].
  destruct (solveA k p) as [x' obj|] eqn:EA; [|exact H].
  pose proof (solveA_feasible _ _ _ _ EA) as H'.
  destruct (tol_reached close log obj); [exact H'|].
  destruct (stop (2 * k + 1)); [exact H'|].
  destruct (solveB k x') as [p'|] eqn:EB; [|exact H'].
  apply IH. exact (solveB_feasible _ _ _ EB).
Qed.

(* at EVERY exit (polite stop before A or B, non-optimal A or B, tolerance, max_iter):
   either nothing was ever solved and the initial guesses are returned with an empty log,
   or the returned (x, p) satisfies the constraint *)
Theorem fit_invariant : forall max_iter x0 p0,
  let r := fit max_iter x0 p0 in
  (o_x r = x0 /\ o_p r = p0 /\ o_log r = []) \/ Inv (o_x r) (o_p r).
Proof.
  intros max_iter x0 p0. unfold Altern.fit, Altern.loop.
  destruct max_iter as [|fuel]; cbn [Altern.loop_tr]; [left; auto|].
  destruct (stop (2 * 0)); [left; auto|].
  destruct (solveA 0 p0) as [x' obj|] eqn:EA; [|left; auto].
  pose proof (solveA_feasible _ _ _ _ EA) as H'. right.
  destruct (tol_reached close [] obj); [exact H'|].
  destruct (stop (2 * 0 + 1)); [exact H'|].
  destruct (solveB 0 x') as [p'|] eqn:EB; [|exact H'].
  apply loop_invariant. exact (solveB_feasible _ _ _ EB).
Qed.

(* ---------- bookkeeping: n_iter_, length of the log ---------- *)
Lemma loop_niter : forall fuel k x p log tr,
  k <= o_niter (loop_tr fuel k x p log tr) <= k + fuel /\
  (o_reason (loop_tr fuel k x p log tr) = RMaxIter -> o_niter (loop_tr fuel k x p log tr) = k + fuel) /\
  (0 < fuel -> k + 1 <= o_niter (loop_tr fuel k x p log tr)).
Proof.
  induction fuel as [|fuel IH]; intros k x p log tr; cbn [Altern.loop_tr o_niter o_reason].
  - repeat split; lia.
  - destruct (stop (2 * k)); cbn [o_niter o_reason]; [repeat split; try lia; discriminate|].
    destruct (solveA k p) as [x' obj|]; cbn [o_niter o_reason]; [|repeat split; try lia; discriminate].
    destruct (tol_reached close log obj); cbn [o_niter o_reason]; [repeat split; try lia; discriminate|].
    destruct (stop (2 * k + 1)); cbn [o_niter o_reason]; [repeat split; try lia; discriminate|].
    destruct (solveB k x') as [p'|]; cbn [o_niter o_reason]; [|repeat split; try lia; discriminate].
    destruct (IH (k + 1) x' p' (log ++ [obj]) (tr ++ [inl p; inr x'])) as [H1 [H2 H3]].
    repeat split; try lia. intros Hr. rewrite (H2 Hr). lia.
Qed.

Theorem fit_niter : forall max_iter x0 p0, 0 < max_iter ->
  1 <= o_niter (fit max_iter x0 p0) <= max_iter /\
  (o_reason (fit max_iter x0 p0) = RMaxIter -> o_niter (fit max_iter x0 p0) = max_iter).
Proof.
  intros max_iter x0 p0 Hm. unfold Altern.fit, Altern.loop.
  destruct (loop_niter max_iter 0 x0 p0 [] []) as [H1 [H2 H3]].
  repeat split; try lia. exact H2.
Qed.

Lemma loop_log_length : forall fuel k x p log tr, length log = k ->
  let r := loop_tr fuel k x p log tr in
  length (o_log r) = o_niter r \/ S (length (o_log r)) = o_niter r \/ o_reason r = RMaxIter.
Proof.
  induction fuel as [|fuel IH]; intros k x p log tr Hl; cbn [Altern.loop_tr o_niter o_reason o_log].
  - right; right; reflexivity.
  - destruct (stop (2 * k)); cbn [o_niter o_log]; [right; left; lia|].
    destruct (solveA k p) as [x' obj|]; cbn [o_niter o_log]; [|right; left; lia].
    assert (Hl' : length (log ++ [obj]) = k + 1) by (rewrite app_length; cbn; lia).
    destruct (tol_reached close log obj); cbn [o_niter o_log]; [left; lia|].
    destruct (stop (2 * k + 1)); cbn [o_niter o_log]; [left; lia|].
    destruct (solveB k x') as [p'|]; cbn [o_niter o_log]; [|left; lia].
    apply IH. exact Hl'.
Qed.

(* ---------- the objective log is non-increasing ----------
   J x is the objective of x; the oracle's optimal answer to A(p) minimises J over the
   x feasible with p and reports obj = J x; then x_k is feasible for A_(k+1) because B
   certified Inv x_k p_(k+1), so J x_(k+1) <= J x_k. *)
Variable J : XA -> O.
Variable le : O -> O -> Prop.
Hypothesis le_refl : forall a, le a a.
Hypothesis solveA_optimal : forall k p x obj, solveA k p = OptA x obj ->
  obj = J x /\ forall y, Inv y p -> le (J x) (J y).

Definition nonincreasing (l : list O) : Prop :=
  forall i, S i < length l -> forall d, le (nth (S i) l d) (nth i l d).

Lemma nonincreasing_snoc : forall l a, nonincreasing l ->
  (forall d, l <> [] -> le a (last l d)) -> nonincreasing (l ++ [a]).
Proof.
  intros l a Hl Ha i Hi d. rewrite app_length in Hi. cbn in Hi.
  destruct (Nat.eq_dec (S i) (length l)) as [E|E].
  - rewrite (app_nth2 l [a]) by lia. rewrite E, Nat.sub_diag. cbn [nth].
    rewrite (app_nth1 l [a]) by lia.
    assert (Hne : l <> []) by (intros ->; cbn in E; lia).
    specialize (Ha d Hne).
    assert (Hlast : last l d = nth i l d).
    { clear -E. revert i E. induction l as [|b l IH]; intros i E; [cbn in E; lia|].
      destruct l as [|c l]; [cbn in E; assert (i = 0) by lia; subst; reflexivity|].
      destruct i as [|i]; [cbn in E; lia|]. cbn [last nth]. cbn [length] in E.
      apply (IH i). cbn [length]. lia. }
    now rewrite <- Hlast.
  - rewrite !(app_nth1 l [a]) by lia. apply Hl. lia.
Qed.

Lemma loop_monotone : forall fuel k x p log tr,
  nonincreasing log -> (forall d, log <> [] -> last log d = J x) -> (log <> [] -> Inv x p) ->
  nonincreasing (o_log (loop_tr fuel k x p log tr)).
Proof.
  induction fuel as [|fuel IH]; intros k x p log tr Hmono Hlast Hinv; cbn [Altern.loop_tr o_log]; [exact Hmono|].
  destruct (stop (2 * k)); [exact Hmono|].
  destruct (solveA k p) as [x' obj|] eqn:EA; [|exact Hmono].
  destruct (solveA_optimal _ _ _ _ EA) as [Hobj Hmin].
  assert (Hmono' : nonincreasing (log ++ [obj])).
  { apply nonincreasing_snoc; [exact Hmono|]. intros d Hne. rewrite (Hlast d Hne). subst obj.
    apply Hmin. now apply Hinv. }
  destruct (tol_reached close log obj); [exact Hmono'|].
  destruct (stop (2 * k + 1)); [exact Hmono'|].
  destruct (solveB k x') as [p'|] eqn:EB; [|exact Hmono'].
  apply IH; [exact Hmono' | | intros _; exact (solveB_feasible _ _ _ EB)].
  intros d _. rewrite last_last. exact Hobj.
Qed.

Theorem fit_log_nonincreasing : forall max_iter x0 p0,
  nonincreasing (o_log (fit max_iter x0 p0)).
Proof.
  intros. unfold Altern.fit, Altern.loop. apply loop_monotone.
  - intros i Hi. cbn in Hi. lia.
  - intros d H. now contradiction H.
  - intros H. now contradiction H.
Qed.

End Facts.
