(* C08 — model of score_trajectory / _weights_from_data_matrix over exact rationals
   (koopman_pipeline.py:3279-3448, 3701-3753) for the two error metrics whose formula is
   modelled (neg_mean_squared_error, neg_mean_absolute_error; multioutput = uniform_average,
   sample_weight = the discount weights).  Definitions only. *)
From Coq Require Import List QArith Qabs ZArith NArith Bool Arith.
From PK Require Import PyList Episodes.
Import ListNotations.
Open Scope Q_scope.

Inductive metric := MSE | MAE.
Inductive outcome := Score (q : Q) | ErrorScore | Raised.

Fixpoint qpow (d : Q) (k : nat) : Q := match k with O => 1 | S k' => d * qpow d k' end.

(* weights of one stripped episode of m rows *)
Definition qweights_ep (d : Q) (n_steps : option nat) (m : nat) : list Q :=
  weights_ep (qpow d) 0 n_steps m.
Definition qweights (d : Q) (ep : bool) (n_steps : option nat) (X : dmat Q) : list Q :=
  weights (qpow d) 0 ep n_steps X.

Definition err (m : metric) (p x : Q) : Q :=
  match m with MSE => (p - x) * (p - x) | MAE => Qabs (p - x) end.
Definition qsum (l : list Q) : Q := fold_right Qplus 0 l.
Definition row_err (m : metric) (p x : list Q) : Q :=
  qsum (map2 (err m) p x) / inject_Z (Z.of_nat (length x)).
(* sum_r w_r * mean_c e_rc / sum_r w_r *)
Definition weighted_error (m : metric) (w : list Q) (P X : list (list Q)) : Q :=
  qsum (map2 Qmult w (map2 (row_err m) P X)) / qsum w.

(* score_trajectory: error_score = None models a string ('raise'); Some None models NaN / inf;
   Some (Some q) a finite number.  [finite] = all inputs finite. *)
Definition score_trajectory (m : metric) (n_steps : option nat) (d : Q) (error_score : option (option Q))
           (min_samples : nat) (ep : bool) (finite : bool) (Xp Xe : dmat Q) : outcome :=
  if negb finite then match error_score with None => Raised | Some _ => ErrorScore end
  else
    let Xe' := strip_ic ep min_samples Xe in
    let Xp' := strip_ic ep min_samples Xp in
    let w := qweights d ep n_steps Xe' in
    let s := - weighted_error m w (rows Xp') (rows Xe') in
    match error_score with
    | Some (Some e) => if Qlt_le_dec s e then ErrorScore else Score s
    | _ => Score s
    end.

Definition discount_ok (d : Q) : bool := Qle_bool 0 d && Qle_bool d 1.
