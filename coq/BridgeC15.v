(* Bridge for C15: the frame facts regenerated from /repo's source on this run. *)
From Coq Require Import List String Bool.
From PK.Gen Require Import Effects.
Import ListNotations.
Open Scope string_scope.

(* no fit-like method overwrites or mutates a constructor parameter, declares a global, or
   uses dynamic attribute access; no read-only method writes to self *)
Lemma no_frame_violation : frames_ok = true.
Proof. reflexivity. Qed.

(* the only shared mutable state reachable from fit is the one named by the recorded
   findings F6 (module flag polite_stop read by the iterative LMI fits and never reset) and
   F7 (memoised _calc_QSig fits the Tsvd it is given, only on a cache miss) *)
Lemma shared_state_is_the_recorded_one :
  shared_state_facts =
  [ ("<module>", "_calc_QSig", "memoised_function_fits_its_argument", "tsvd");
    ("LmiDmdcHinfReg", "_fit_regressor", "reads_module_flag", "polite_stop");
    ("LmiDmdcSpectralRadiusConstr", "_fit_regressor", "reads_module_flag", "polite_stop");
    ("LmiEdmd", "_create_base_problem", "memo_call_with_estimator", "_calc_QSig");
    ("LmiEdmdDissipativityConstr", "_fit_regressor", "reads_module_flag", "polite_stop");
    ("LmiEdmdHinfReg", "_fit_regressor", "reads_module_flag", "polite_stop");
    ("LmiEdmdSpectralRadiusConstr", "_fit_regressor", "reads_module_flag", "polite_stop") ].
Proof. reflexivity. Qed.
