(* Bridge for AnglePreprocessor (pykoop/util.py, C01 / C02 / C04 / C19): _transform_one_ep and
   _inverse_transform_one_ep as REGENERATED from the source (Gen/StagesGen.v: boolean-mask gathers and scatters) are the
   row semantics of the model (Stage.v: angle_row / angle_inv_row), when the three output masks are the ones the fit
   computes from the input mask: a linear column where the input is not an angle, a (cos, sin) pair where it is. *)
From Coq Require Import List ZArith Arith Bool Lia.
From PK Require Import PyList SliceLib Episodes Stage.
From PK.Gen Require Import StagesGen.
Import ListNotations.

(* the output masks of AnglePreprocessor._fit_one_ep as functions of the input mask *)
Definition out_lin (m : list bool) : list bool := flat_map (fun b : bool => if b then [false; false] else [true]) m.
Definition out_cos (m : list bool) : list bool := flat_map (fun b : bool => if b then [true; false] else [false]) m.
Definition out_sin (m : list bool) : list bool := flat_map (fun b : bool => if b then [false; true] else [false]) m.

Section Bridge.
Variable T : Type.
Variable O : ops T.
Notation t0 := (op_t0 O).
Notation tcos := (op_cos O).
Notation tsin := (op_sin O).
Notation tatan2 := (op_atan2 O).

(* one row: the three scatters into a row of zeros give angle_row *)
Lemma angle_row_scatter : forall (m : list bool) (r z : list T), length r = length m -> length z = length (out_lin m) ->
  put_mask_row (out_sin m) (map tsin (take_mask_row m r))
    (put_mask_row (out_cos m) (map tcos (take_mask_row m r))
       (put_mask_row (out_lin m) (take_mask_row (neg_mask m) r) z))
  = angle_row O m r.
Proof.
  induction m as [|b m IH]; intros r z Hr Hz.
  - destruct r; [|discriminate]. destruct z; [reflexivity|discriminate].
  - destruct r as [|x r]; [discriminate|]. injection Hr as Hr.
    destruct b; cbn [out_lin out_cos out_sin flat_map app] in Hz |- *.
    + destruct z as [|z1 [|z2 z]]; try discriminate. cbn [length] in Hz. injection Hz as Hz.
      unfold take_mask_row, neg_mask. cbn [map negb zip filter fst snd put_mask_row angle_row app].
      f_equal. f_equal. apply (IH r z Hr Hz).
    + destruct z as [|z1 z]; try discriminate. cbn [length] in Hz. injection Hz as Hz.
      unfold take_mask_row, neg_mask. cbn [map negb zip filter fst snd put_mask_row angle_row app].
      f_equal. apply (IH r z Hr Hz).
Qed.

Theorem gen_angle_transform_model : forall (m : list bool) nso nuo (X : list (list T)),
  (forall r, In r X -> length r = length m) -> nso + nuo = length (out_lin m) ->
  gen_angle_transform T t0 tcos tsin nso nuo m (out_lin m) (out_cos m) (out_sin m) X = map (angle_row O m) X.
Proof.
  intros m nso nuo X Hrect Hn. unfold gen_angle_transform, put_mask, take_mask, map_cells, zeros_like_rows. cbn zeta.
  induction X as [|r X IH]; [reflexivity|]. cbn [map map2].
  rewrite IH by (intros r' Hr'; apply Hrect; right; exact Hr'). f_equal.
  apply angle_row_scatter; [apply Hrect; left; reflexivity|rewrite repeat_length; exact Hn].
Qed.

(* inverse, without unwrapping: gather the linear columns, arctan2(sin, cos) on the pairs *)
Lemma angle_inv_row_scatter : forall (m : list bool) (r z : list T), length r = length (out_lin m) -> length z = length m ->
  put_mask_row m (map2 tatan2 (take_mask_row (out_sin m) r) (take_mask_row (out_cos m) r))
    (put_mask_row (neg_mask m) (take_mask_row (out_lin m) r) z)
  = angle_inv_row O m r.
Proof.
  induction m as [|b m IH]; intros r z Hr Hz.
  - destruct z; [|discriminate]. reflexivity.
  - destruct z as [|z1 z]; [discriminate|]. injection Hz as Hz.
    destruct b; cbn [out_lin out_cos out_sin flat_map app] in Hr |- *.
    + destruct r as [|c [|s r]]; try discriminate. cbn [length] in Hr. injection Hr as Hr.
      unfold take_mask_row, neg_mask. cbn [map negb zip filter fst snd put_mask_row angle_inv_row map2].
      f_equal. apply (IH r z Hr Hz).
    + destruct r as [|x r]; try discriminate. cbn [length] in Hr. injection Hr as Hr.
      unfold take_mask_row, neg_mask. cbn [map negb zip filter fst snd put_mask_row angle_inv_row map2].
      f_equal. apply (IH r z Hr Hz).
Qed.

Theorem gen_angle_inverse_model : forall (unwrap0 : list (list T) -> list (list T)) (m : list bool) ns nu (X : list (list T)),
  (forall r, In r X -> length r = length (out_lin m)) -> ns + nu = length m ->
  gen_angle_inverse T t0 tatan2 unwrap0 false ns nu m (out_lin m) (out_cos m) (out_sin m) X = map (angle_inv_row O m) X.
Proof.
  intros unwrap0 m ns nu X Hrect Hn. unfold gen_angle_inverse, put_mask, take_mask, map2_cells, zeros_like_rows. cbn zeta.
  induction X as [|r X IH]; [reflexivity|]. cbn [map map2].
  rewrite IH by (intros r' Hr'; apply Hrect; right; exact Hr'). f_equal.
  apply angle_inv_row_scatter; [apply Hrect; left; reflexivity|rewrite repeat_length; exact Hn].
Qed.

End Bridge.
