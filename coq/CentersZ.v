(* Executable instance (T := Z) of the centre-generator model used by the C17 / C18
   correspondence: _feature_range and np.linspace on integer data (exact when the step is
   an integer, which the harness arranges and checks), GridCenters' arrangement
   (GridModel.grid_centers), and the stream positions of SeedModel. *)
From Coq Require Import List ZArith Bool Arith.
From PK Require Import PyList GridModel SeedModel ZInst.
Import ListNotations.
Open Scope Z_scope.

Fixpoint zlist_max (x0 : Z) (l : list Z) : Z :=
  match l with [] => x0 | y :: l' => Z.max x0 (zlist_max y l') end.
Fixpoint zlist_min (x0 : Z) (l : list Z) : Z :=
  match l with [] => x0 | y :: l' => Z.min x0 (zlist_min y l') end.

(* _feature_range on one non-empty column *)
Definition zfeature_range (symmetric : bool) (col : list Z) : Z * Z :=
  match col with
  | [] => (0, 0)
  | x0 :: l =>
      if symmetric then (- zlist_max (Z.abs x0) (map Z.abs l), zlist_max (Z.abs x0) (map Z.abs l))
      else (zlist_min x0 l, zlist_max x0 l)
  end.

(* np.linspace(lo, hi, m) when (hi - lo) is a multiple of (m - 1) *)
Definition zlinspace (lo hi : Z) (m : nat) : list Z :=
  match m with
  | O => []
  | S O => [lo]
  | _ => map (fun k => lo + Z.of_nat k * ((hi - lo) / (Z.of_nat m - 1))) (seq 0 m)
  end.

Definition zcolumns (n : nat) (X : list (list Z)) : list (list Z) :=
  map (fun j => map (fun r => nth j r 0) X) (seq 0 n).

(* GridCenters.fit on a data matrix with n feature columns *)
Definition zgrid_fit (symmetric : bool) (m n : nat) (X : list (list Z)) : list (list Z) :=
  grid_centers (map (fun col => let r := zfeature_range symmetric col in zlinspace (fst r) (snd r) m)
                    (zcolumns n X)).

Definition zrows_eqb (A B : list (list Z)) : bool := list_eqb (list_eqb Z.eqb) A B.

Definition pos_eqb (a b : nat * nat) : bool := Nat.eqb (fst a) (fst b) && Nat.eqb (snd a) (snd b).
Definition poss_eqb (A B : list (list (nat * nat))) : bool := list_eqb (list_eqb pos_eqb) A B.
