(* Bridge for score_trajectory (C08): the function REGENERATED from the source by tools/gen_score.py (Gen/ScoreGen.v: both
   error exits, strip_initial_conditions of both arrays, weights from the stripped EXPECTED array, label column dropped,
   the metric on (sample_weight, y_true, y_pred), sign flip for the losses, comparison with a finite error_score) is
   `score_trajectory` of the model (Score.v) over the rationals, where every score is finite:
   None = raised, Some None = error_score returned, Some (Some s) = score s. *)
From Coq Require Import List ZArith NArith Arith Bool QArith.
From PK Require Import PyList SliceLib Episodes ShiftFacts Score BridgeEpisodes BridgeFrames.
From PK.Gen Require Import EpisodesGen FramesGen ScoreGen.
Import ListNotations.

Definition outcome_of (r : option (option Q)) : outcome :=
  match r with None => Raised | Some None => ErrorScore | Some (Some s) => Score s end.

(* the two loss metrics of the model, with scikit-learn's argument order (sample_weight, y_true, y_pred) *)
Definition metric_model (m : metric) (w : list Q) (y_true y_pred : list (list Q)) : Q := weighted_error m w y_pred y_true.
Definition qlt (s e : Q) : bool := if Qlt_le_dec s e then true else false.

Theorem gen_score_trajectory_model :
  forall (m : metric) (n_steps : option nat) (d : Q) (error_score : option (option Q)) (min_samples : nat) (ep : bool)
         (all_finite : dmat Q -> bool) (Xp Xe : dmat Q),
  outcome_of (gen_score_trajectory Q Q Q all_finite (fun _ => true) Qopp qlt (metric_model m)
                (fun w e X => strip_ic e w X) (qpow d) 0%Q false n_steps error_score min_samples ep Xp Xe)
  = score_trajectory m n_steps d error_score min_samples ep (all_finite Xp && all_finite Xe) Xp Xe.
Proof.
  intros m n_steps d error_score min_samples ep all_finite Xp Xe.
  unfold gen_score_trajectory, score_trajectory. cbn zeta.
  destruct (all_finite Xp && all_finite Xe); cbn [negb].
  2: { destruct error_score as [[e|]|]; reflexivity. }
  rewrite gen_weights_model. unfold metric_model, qweights, data_columns, rows.
  destruct error_score as [[e|]|]; cbn [outcome_of]; try reflexivity.
  unfold qlt. destruct (Qlt_le_dec _ e); reflexivity.
Qed.

(* ---------------------------------------------------------------- the scorer of KoopmanPipeline.make_scorer / .score *)
From PK Require Import Stage Helpers ZInst.

Definition toQ (X : dmat Z) : dmat Q := map (fun lr => (fst lr, map inject_Z (snd lr))) X.

(* the model of the scorer: integer data and Koopman matrix (the data-path model at T := Z), scored over the rationals *)
Definition scorer_model (f : fitted Z) (coef : list (list Z)) (w : nat) (m : metric) (multistep relift : bool)
    (n_steps : option nat) (d : Q) (error_score : option (option Q)) (X : dmat Z) : outcome :=
  let ep := f_ep f in
  let nu := snd (f_dims f) in
  let XU := shift_episodes ep nu X in
  if multistep then
    let x0 := extract_ic ep w nu (fst XU) in
    let u := extract_input ep nu (fst XU) in
    let Xp := of_raw zops ep (predict_trajectory zops f coef w relift false false None (to_raw zops ep x0) (Some (to_raw zops ep u))) in
    score_trajectory m n_steps d error_score w ep true (toQ Xp) (toQ (snd XU))
  else
    let Xp := of_raw zops ep (predict zops f coef (to_raw zops ep (fst XU))) in
    score_trajectory m None 1 error_score w ep true (toQ Xp) (toQ (snd XU)).

Theorem gen_scorer_model : forall (f : fitted Z) (coef : list (list Z)) (w : nat) (m : metric) (multistep relift : bool)
    (n_steps : option nat) (d : Q) (error_score : option (option Q)) (X : dmat Z),
  gen_koopman_pipeline_scorer Z outcome Q
    (fun nu ep X => shift_episodes ep nu X) (fun w nu ep X => extract_ic ep w nu X) (fun nu ep X => extract_input ep nu X)
    (fun relift x0 u => of_raw zops (f_ep f) (predict_trajectory zops f coef w relift false false None
                                               (to_raw zops (f_ep f) x0) (Some (to_raw zops (f_ep f) u))))
    (fun X => of_raw zops (f_ep f) (predict zops f coef (to_raw zops (f_ep f) X)))
    (fun n_steps d w ep Xp Xe => score_trajectory m n_steps d error_score w ep true (toQ Xp) (toQ Xe))
    1%Q (snd (f_dims f)) w (f_ep f) multistep relift n_steps d X
  = scorer_model f coef w m multistep relift n_steps d error_score X.
Proof. intros. unfold gen_koopman_pipeline_scorer, scorer_model. destruct multistep; reflexivity. Qed.

(* F8 (recorded finding): the multi-step scorer predicts from the UNSHIFTED part and compares with the SHIFTED part, so
   predicted state k is compared with true state k+1.  Witness: x+ = 2 x, one episode 1, 2, 4, 8, no lifting: the model
   with Koopman matrix [[2]] reproduces the data exactly, and the scorer as generated from the source gives it a
   strictly negative score (mean squared error (2-4)^2 and (4-8)^2 over the two scored steps = 10). *)
Definition f8_f : fitted Z := Build_fitted (Pipe (CNil Z)) false (1%nat, 0%nat).
Definition f8_X : dmat Z := [(0%N, [1%Z]); (0%N, [2%Z]); (0%N, [4%Z]); (0%N, [8%Z])].

Theorem scorer_alignment_refuted :
  (* the model is perfect: predicting the whole episode from its first sample returns the data *)
  predict_trajectory zops f8_f [[2%Z]] 1 true false false None (to_raw zops false f8_X) None = to_raw zops false f8_X
  /\ exists s, gen_koopman_pipeline_scorer Z outcome Q
       (fun nu ep X => shift_episodes ep nu X) (fun w nu ep X => extract_ic ep w nu X) (fun nu ep X => extract_input ep nu X)
       (fun relift x0 u => of_raw zops false (predict_trajectory zops f8_f [[2%Z]] 1 relift false false None
                                                 (to_raw zops false x0) (Some (to_raw zops false u))))
       (fun X => of_raw zops false (predict zops f8_f [[2%Z]] (to_raw zops false X)))
       (fun n_steps d w ep Xp Xe => score_trajectory MSE n_steps d None w ep true (toQ Xp) (toQ Xe))
       1%Q 0%nat 1%nat false true true None 1%Q f8_X = Score s
     /\ Qeq_bool s (-10) = true.
Proof. split; [vm_compute; reflexivity|]. vm_compute. eexists. split; reflexivity. Qed.
