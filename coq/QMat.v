(* Exact rational matrix arithmetic on lists, used to evaluate numerical certificates
   (normal equations of EDMD) inside Coq on the coefficients the implementation returns. *)
From Coq Require Import List QArith Qabs ZArith Bool.
From PK Require Import PyList.
Import ListNotations.
Open Scope Q_scope.

Definition qmat := list (list Q).
Definition qdot (a b : list Q) : Q := fold_right Qplus 0 (map2 Qmult a b).
Fixpoint qtranspose_aux (n : nat) (M : qmat) : qmat :=
  match n with
  | O => []
  | S k => qtranspose_aux k M ++ [map (fun r => nth k r 0) M]
  end.
Definition qtranspose (M : qmat) : qmat := qtranspose_aux (length (hd [] M)) M.
Definition qmul (A B : qmat) : qmat :=
  let Bt := qtranspose B in map (fun r => map (fun c => Qred (qdot r c)) Bt) A.
Definition qsub (A B : qmat) : qmat := map2 (map2 (fun x y => Qred (x - y))) A B.
Definition qadd (A B : qmat) : qmat := map2 (map2 (fun x y => Qred (x + y))) A B.
Definition qeye (n : nat) (a : Q) : qmat :=
  map (fun i => map (fun j => if Nat.eqb i j then a else 0) (seq 0 n)) (seq 0 n).
Definition qabs_le (tol : Q) (M : qmat) : bool :=
  forallb (forallb (fun x => Qle_bool (Qabs x) tol)) M.
Definition zq (M : list (list Z)) : qmat := map (map inject_Z) M.

(* Psi : p x q (one column per sample), Thp : r x q, U : r x p.
   residual of the normal equations  U (Psi Psi^T + alpha I) - Thp Psi^T *)
Definition normal_eq_residual (Psi Thp : qmat) (alpha : Q) (U : qmat) : qmat :=
  let PsiT := qtranspose Psi in
  qsub (qmul U (qadd (qmul Psi PsiT) (qeye (length Psi) alpha))) (qmul Thp PsiT).
Definition normal_eq_ok (tol : Q) (Psi Thp : qmat) (alpha : Q) (U : qmat) : bool :=
  qabs_le tol (normal_eq_residual Psi Thp alpha U).
