(* Unfolding equations of the mutually recursive model functions (all by
   reflexivity) — proofs rewrite with these instead of unfolding fixpoints. *)
From Coq Require Import List ZArith NArith Bool Arith.
From PK Require Import PyList Episodes Stage.
Import ListNotations.
Set Implicit Arguments.

Section Eqns.
Variable T : Type.
Variable O : ops T.
Notation stage := (stage T).
Notation chain := (chain T).

Lemma wf_leaf (l : leaf T) d : wf (Leaf l) d = leaf_wf l d. Proof. reflexivity. Qed.
Lemma wf_split (xs us : chain) d :
  wf (Split xs us) d = cwf xs (fst d, 0) && cwf us (0, snd d)
                       && Nat.eqb (snd (cdims xs (fst d, 0))) 0 && Nat.eqb (fst (cdims us (0, snd d))) 0.
Proof. reflexivity. Qed.
Lemma wf_pipe (c : chain) d : wf (Pipe c) d = cwf c d. Proof. reflexivity. Qed.
Lemma cwf_nil d : cwf (CNil T) d = true. Proof. reflexivity. Qed.
Lemma cwf_cons (s : stage) c d : cwf (CCons s c) d = wf s d && cwf c (sdims s d). Proof. reflexivity. Qed.

Lemma sdims_leaf (l : leaf T) d : sdims (Leaf l) d = leaf_dims l d. Proof. reflexivity. Qed.
Lemma sdims_split (xs us : chain) d :
  sdims (Split xs us) d = (fst (cdims xs (fst d, 0)), snd (cdims us (0, snd d))).
Proof. reflexivity. Qed.
Lemma sdims_pipe (c : chain) d : sdims (Pipe c) d = cdims c d. Proof. reflexivity. Qed.
Lemma cdims_nil d : cdims (CNil T) d = d. Proof. reflexivity. Qed.
Lemma cdims_cons (s : stage) c d : cdims (CCons s c) d = cdims c (sdims s d). Proof. reflexivity. Qed.

Lemma samples_in_leaf (l : leaf T) n : samples_in (Leaf l) n = leaf_samples_in l n. Proof. reflexivity. Qed.
Lemma samples_in_split (xs us : chain) n :
  samples_in (Split xs us) n = Nat.max (csamples_in xs n) (csamples_in us n).
Proof. reflexivity. Qed.
Lemma samples_in_pipe (c : chain) n : samples_in (Pipe c) n = csamples_in c n. Proof. reflexivity. Qed.
Lemma csamples_in_nil n : csamples_in (CNil T) n = n. Proof. reflexivity. Qed.
Lemma csamples_in_cons (s : stage) c n : csamples_in (CCons s c) n = samples_in s (csamples_in c n).
Proof. reflexivity. Qed.

Lemma transform_leaf (l : leaf T) ep d X : transform O (Leaf l) ep d X = leaf_transform O l ep d X.
Proof. reflexivity. Qed.
Lemma transform_split (xs us : chain) ep d X :
  transform O (Split xs us) ep d X =
  zip_branches ep (ctransform O xs ep (fst d, 0) (cols_state ep (fst d) X))
                  (ctransform O us ep (0, snd d) (cols_input ep (fst d) X)).
Proof. reflexivity. Qed.
Lemma transform_pipe (c : chain) ep d X : transform O (Pipe c) ep d X = ctransform O c ep d X.
Proof. reflexivity. Qed.
Lemma ctransform_nil ep d X : ctransform O (CNil T) ep d X = X. Proof. reflexivity. Qed.
Lemma ctransform_cons (s : stage) c ep d X :
  ctransform O (CCons s c) ep d X = ctransform O c ep (sdims s d) (transform O s ep d X).
Proof. reflexivity. Qed.

Lemma inverse_leaf (l : leaf T) ep d X : inverse O (Leaf l) ep d X = leaf_inverse O l ep d X.
Proof. reflexivity. Qed.
Lemma inverse_split (xs us : chain) ep d X :
  inverse O (Split xs us) ep d X =
  zip_branches ep (cinverse O xs ep (fst d, 0) (cols_state ep (fst (sdims (Split xs us) d)) X))
                  (cinverse O us ep (0, snd d) (cols_input ep (fst (sdims (Split xs us) d)) X)).
Proof. reflexivity. Qed.
Lemma inverse_pipe (c : chain) ep d X : inverse O (Pipe c) ep d X = cinverse O c ep d X.
Proof. reflexivity. Qed.
Lemma cinverse_nil ep d X : cinverse O (CNil T) ep d X = X. Proof. reflexivity. Qed.
Lemma cinverse_cons (s : stage) c ep d X :
  cinverse O (CCons s c) ep d X = inverse O s ep d (cinverse O c ep (sdims s d) X).
Proof. reflexivity. Qed.
End Eqns.
