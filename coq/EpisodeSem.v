(* C03 / C04 — the model's transform, per episode, IS the per-episode
   specification tf_ep; sample counts; label preservation.  For every stage tree
   (any nesting), every dims, every data matrix. *)
From Coq Require Import List ZArith NArith Bool Arith Lia.
From PK Require Import PyList ListFacts Episodes EpisodesFacts Stage StageEqns StageSpec StageFacts.
Import ListNotations.

Set Implicit Arguments.

(* ------------------------------------------------------------ slices *)
Lemma pyslice_length {A} (lo hi : Z) (l : list A) :
  (0 <= lo <= hi)%Z -> (hi <= Z.of_nat (length l))%Z ->
  length (pyslice lo hi l) = Z.to_nat (hi - lo).
Proof.
  intros H1 H2. unfold pyslice, norm_idx.
  destruct (Z.ltb_spec lo 0); [lia|]. destruct (Z.ltb_spec hi 0); [lia|].
  rewrite firstn_length, skipn_length. lia.
Qed.

Section Sem.
Variable T : Type.
Variable O : ops T.
Notation dmat := (dmat T).
Notation stage := (stage T).
Notation chain := (chain T).
Notation mat := (list (list T)).

Lemma hconcat_length (blocks : list mat) L :
  blocks <> [] -> (forall b, In b blocks -> length b = L) -> length (hconcat blocks) = L.
Proof.
  induction blocks as [|b bs IH]; intros Hne H; [congruence|].
  destruct bs as [|b' bs].
  - cbn [hconcat]. apply H. left; reflexivity.
  - change (hconcat (b :: b' :: bs)) with (hstack b (hconcat (b' :: bs))).
    unfold hstack. rewrite map2_length, IH; [|discriminate|intros x Hx; apply H; right; exact Hx].
    rewrite (H b) by (left; reflexivity). lia.
Qed.

Lemma delay_length n (E : mat) : n <= length E -> length (delay n E) = length E - n.
Proof.
  intros Hn. unfold delay. apply hconcat_length.
  - unfold delay_blocks. intros H. apply (f_equal (@length _)) in H.
    rewrite map_length, rev_length, seq_length in H. cbn in H. lia.
  - intros b Hb. unfold delay_blocks in Hb. apply in_map_iff in Hb. destruct Hb as [i [<- Hi]].
    apply in_rev, in_seq in Hi. rewrite pyslice_length; lia.
Qed.

Lemma hconcat_all_nil (blocks : list mat) : (forall b, In b blocks -> b = []) -> hconcat blocks = [].
Proof.
  induction blocks as [|b bs IH]; intros H; [reflexivity|].
  destruct bs as [|b' bs].
  - cbn [hconcat]. apply H. left; reflexivity.
  - change (hconcat (b :: b' :: bs)) with (hstack b (hconcat (b' :: bs))).
    rewrite (H b) by (left; reflexivity). reflexivity.
Qed.

Lemma pyslice_nil {A} lo hi : pyslice lo hi (@nil A) = [].
Proof. unfold pyslice. cbn [length]. rewrite skipn_nil, firstn_nil. reflexivity. Qed.

Lemma delay_nil n : delay n (@nil (list T)) = [].
Proof.
  unfold delay. apply hconcat_all_nil. intros b Hb. unfold delay_blocks in Hb.
  apply in_map_iff in Hb. destruct Hb as [i [<- _]]. apply pyslice_nil.
Qed.

Lemma align_length (Es Eu : mat) : length (align Es Eu) = Nat.min (length Es) (length Eu).
Proof.
  unfold align, hstack. rewrite map2_length. unfold last_rows.
  destruct (Nat.eqb_spec (Nat.min (length Es) (length Eu)) 0) as [H0|Hn]; [lia|].
  rewrite !skipn_length. lia.
Qed.

Lemma align_nil_l (Eu : mat) : align [] Eu = [].
Proof. unfold align, hstack. cbn [length Nat.min last_rows Nat.eqb map2]. reflexivity. Qed.

Lemma delay_ep_length d dx du (E : mat) :
  Nat.max dx du <= length E -> length (delay_ep d dx du E) = length E - Nat.max dx du.
Proof.
  intros H. unfold delay_ep. fold (align (delay dx (map (firstn (fst d)) E)) (delay du (map (skipn (fst d)) E))).
  rewrite align_length, !delay_length by (rewrite map_length; lia). rewrite !map_length. lia.
Qed.

Lemma delay_ep_nil d dx du : delay_ep d dx du (@nil (list T)) = [].
Proof. unfold delay_ep. cbn [map]. rewrite !delay_nil. reflexivity. Qed.

(* ------------------------------------------------------------ the spec on [] *)
Definition nil_stage (s : stage) : Prop := forall d, tf_ep O s d [] = [].
Definition nil_chain (c : chain) : Prop := forall d, ctf_ep O c d [] = [].

Lemma tf_ep_nil : forall s, nil_stage s.
Proof.
  apply (stage_mut nil_stage nil_chain).
  - intros l d. rewrite tf_ep_leaf. destruct l; cbn [leaf_ep map]; try reflexivity. apply delay_ep_nil.
  - intros xs IHx us IHu d. rewrite tf_ep_split. cbn [map]. rewrite IHx. apply align_nil_l.
  - intros c IHc d. rewrite tf_ep_pipe. apply IHc.
  - intros d. reflexivity.
  - intros s IHs c IHc d. rewrite ctf_ep_cons, IHs. apply IHc.
Qed.

Lemma ctf_ep_nil_in : forall c, nil_chain c.
Proof.
  apply (chain_mut nil_stage nil_chain).
  - intros l. apply (tf_ep_nil (Leaf l)).
  - intros xs _ us _. apply (tf_ep_nil (Split xs us)).
  - intros c _. apply (tf_ep_nil (Pipe c)).
  - intros d. reflexivity.
  - intros s _ c IHc d. rewrite ctf_ep_cons, (tf_ep_nil s). apply IHc.
Qed.

(* ------------------------------------------------------------ sample counts (C04) *)
Definition count_stage (s : stage) : Prop :=
  forall d E, samples_in s 1 <= length E -> length (tf_ep O s d E) = length E + 1 - samples_in s 1.
Definition count_chain (c : chain) : Prop :=
  forall d E, csamples_in c 1 <= length E -> length (ctf_ep O c d E) = length E + 1 - csamples_in c 1.

Theorem tf_ep_count : forall s, count_stage s.
Proof.
  apply (stage_mut count_stage count_chain).
  - intros l d E H. rewrite tf_ep_leaf. rewrite samples_in_leaf in *.
    destruct l; unfold leaf_samples_in in *; cbn [leaf_ep]; try (rewrite map_length; lia).
    rewrite delay_ep_length; lia.
  - intros xs IHx us IHu d E H. rewrite tf_ep_split, align_length. rewrite samples_in_split in *.
    rewrite IHx, IHu by (rewrite map_length; lia). rewrite !map_length. lia.
  - intros c IHc d E H. rewrite tf_ep_pipe. rewrite samples_in_pipe in *. apply IHc. exact H.
  - intros d E H. rewrite ctf_ep_nil. rewrite csamples_in_nil in *. lia.
  - intros s IHs c IHc d E H. rewrite ctf_ep_cons. rewrite csamples_in_cons in *.
    pose proof (samples_in_additive s (csamples_in c 1)) as Ha.
    pose proof (csamples_in_ge c 1) as Hg.
    pose proof (samples_in_ge s 1) as Hg1.
    rewrite IHc.
    + rewrite IHs by lia. lia.
    + rewrite IHs by lia. lia.
Qed.

Theorem ctf_ep_count : forall c, count_chain c.
Proof.
  apply (chain_mut count_stage count_chain).
  - intros l. apply (tf_ep_count (Leaf l)).
  - intros xs _ us _. apply (tf_ep_count (Split xs us)).
  - intros c _. apply (tf_ep_count (Pipe c)).
  - intros d E H. rewrite ctf_ep_nil. rewrite csamples_in_nil in *. lia.
  - intros s _ c IHc d E H. rewrite ctf_ep_cons. rewrite csamples_in_cons in *.
    pose proof (samples_in_additive s (csamples_in c 1)) as Ha.
    pose proof (csamples_in_ge c 1) as Hg.
    pose proof (samples_in_ge s 1) as Hg1.
    rewrite IHc.
    + rewrite (tf_ep_count s) by lia. lia.
    + rewrite (tf_ep_count s) by lia. lia.
Qed.

(* ------------------------------------------------------------ without episode feature *)
Lemma rows_zip_branches_false (Ts Tu : dmat) :
  rows (zip_branches false Ts Tu) = align (rows Ts) (rows Tu).
Proof.
  unfold zip_branches, split. cbn [zip map fst snd]. rewrite rows_combine. cbn [flat_map snd].
  rewrite app_nil_r. reflexivity.
Qed.

Lemma rows_map_episodes_false (g : mat -> mat) (X : dmat) : rows (map_episodes false g X) = g (rows X).
Proof. rewrite rows_map_episodes. unfold split. cbn [flat_map snd]. apply app_nil_r. Qed.

Definition false_stage (s : stage) : Prop :=
  forall d X, rows (transform O s false d X) = tf_ep O s d (rows X).
Definition false_chain (c : chain) : Prop :=
  forall d X, rows (ctransform O c false d X) = ctf_ep O c d (rows X).

Theorem transform_false : forall s, false_stage s.
Proof.
  apply (stage_mut false_stage false_chain).
  - intros l d X. rewrite transform_leaf, tf_ep_leaf.
    destruct l; cbn [leaf_transform leaf_ep]; try apply rows_rowwise.
    apply rows_map_episodes_false.
  - intros xs IHx us IHu d X. rewrite transform_split, tf_ep_split, rows_zip_branches_false.
    rewrite IHx, IHu. unfold cols_state, cols_input. rewrite !rows_map_episodes_false. reflexivity.
  - intros c IHc d X. rewrite transform_pipe, tf_ep_pipe. apply IHc.
  - intros d X. reflexivity.
  - intros s IHs c IHc d X. rewrite ctransform_cons, ctf_ep_cons, IHc, IHs. reflexivity.
Qed.

(* ------------------------------------------------------------ with episode feature *)
Lemma rows_of_rowwise i (f : list T -> list T) (X : dmat) :
  rows_of i (rowwise f X) = map f (rows_of i X).
Proof.
  unfold rows_of, rowwise. induction X as [|[l r] X IH]; cbn [map filter fst snd]; [reflexivity|].
  destruct (l =? i)%N; cbn [map snd]; rewrite IH; reflexivity.
Qed.

Lemma labels_rowwise (f : list T -> list T) (X : dmat) : labels (rowwise f X) = labels X.
Proof. unfold labels, rowwise. rewrite map_map. reflexivity. Qed.

Lemma rows_of_map_episodes i (g : mat -> mat) (X : dmat) :
  g [] = [] -> rows_of i (map_episodes true g X) = g (rows_of i X).
Proof.
  intros Hg. destruct (in_dec N.eq_dec i (labels X)) as [Hi|Hn].
  - apply (episode_map_episodes_true g X i Hi).
  - rewrite (proj2 (rows_of_nil_iff i X) Hn).
    etransitivity; [apply (episode_map_episodes_absent g X i Hn)|]. symmetry. exact Hg.
Qed.

Lemma zip_map_same {A B C} (f : A -> B) (g : A -> C) (l : list A) :
  zip (map f l) (map g l) = map (fun x => (f x, g x)) l.
Proof. induction l as [|a l IH]; cbn [map zip]; [reflexivity|rewrite IH; reflexivity]. Qed.

Lemma labels_iff_rows (X Y : dmat) :
  (forall i, rows_of i X = [] <-> rows_of i Y = []) -> forall i, In i (labels X) <-> In i (labels Y).
Proof.
  intros H i. split; intros Hi.
  - destruct (in_dec N.eq_dec i (labels Y)) as [|Hn]; [assumption|].
    apply rows_of_nil_iff in Hn. apply H in Hn. apply rows_of_nil_iff in Hn. contradiction.
  - destruct (in_dec N.eq_dec i (labels X)) as [|Hn]; [assumption|].
    apply rows_of_nil_iff in Hn. apply H in Hn. apply rows_of_nil_iff in Hn. contradiction.
Qed.

(* zip_branches when both branches carry the same label set *)
Lemma rows_of_zip_branches (Ts Tu : dmat) i :
  (forall j, In j (labels Ts) <-> In j (labels Tu)) ->
  rows_of i (zip_branches true Ts Tu) = align (rows_of i Ts) (rows_of i Tu).
Proof.
  intros Hl. unfold zip_branches, split.
  rewrite (uniq_ext (labels Tu) (labels Ts)) by (intros x; symmetry; apply Hl).
  rewrite zip_map_same, map_map. cbn [fst snd].
  destruct (in_dec N.eq_dec i (uniq (labels Ts))) as [Hi|Hn].
  - apply rows_of_combine.
    + rewrite map_map. cbn [fst]. rewrite map_id. apply ssorted_NoDup, uniq_sorted.
    + apply in_map_iff. exists i. split; [reflexivity|exact Hi].
  - rewrite rows_of_combine_absent by (rewrite map_map; cbn [fst]; rewrite map_id; exact Hn).
    rewrite uniq_In in Hn. rewrite (proj2 (rows_of_nil_iff i Ts) Hn). symmetry. apply align_nil_l.
Qed.

Definition valid (w : nat) (X : dmat) : Prop := forall i, In i (labels X) -> w <= length (rows_of i X).

Definition true_stage (s : stage) : Prop :=
  forall d X, valid (samples_in s 1) X ->
    forall i, rows_of i (transform O s true d X) = tf_ep O s d (rows_of i X).
Definition true_chain (c : chain) : Prop :=
  forall d X, valid (csamples_in c 1) X ->
    forall i, rows_of i (ctransform O c true d X) = ctf_ep O c d (rows_of i X).

(* consequences of "per episode = spec": labels are preserved *)
Lemma labels_from_spec (X Y : dmat) w (f : mat -> mat) :
  (forall i, rows_of i Y = f (rows_of i X)) -> f [] = [] ->
  (forall E, 1 <= w -> w <= length E -> length (f E) = length E + 1 - w) -> 1 <= w ->
  valid w X -> forall i, In i (labels Y) <-> In i (labels X).
Proof.
  intros Hspec Hnil Hcount Hw1 Hv. apply labels_iff_rows. intros i. rewrite Hspec. split.
  - intros Hf. destruct (in_dec N.eq_dec i (labels X)) as [Hi|Hn].
    + specialize (Hv i Hi). specialize (Hcount _ Hw1 Hv). rewrite Hf in Hcount. cbn [length] in Hcount. unfold Episodes.row in *. lia.
    + apply rows_of_nil_iff. exact Hn.
  - intros ->. exact Hnil.
Qed.

Local Ltac rlia := unfold Episodes.row in *; lia.

Theorem transform_true : forall s, true_stage s.
Proof.
  apply (stage_mut true_stage true_chain).
  - (* leaf *)
    intros l d X _ i. rewrite transform_leaf, tf_ep_leaf.
    destruct l; cbn [leaf_transform leaf_ep]; try apply rows_of_rowwise.
    apply rows_of_map_episodes. apply delay_ep_nil.
  - (* split *)
    intros xs IHx us IHu d X Hv i. rewrite transform_split, tf_ep_split.
    rewrite samples_in_split in Hv.
    set (Xs := cols_state true (fst d) X). set (Xu := cols_input true (fst d) X).
    assert (HXs : forall j, rows_of j Xs = map (firstn (fst d)) (rows_of j X))
      by (intros j; apply rows_of_map_episodes; reflexivity).
    assert (HXu : forall j, rows_of j Xu = map (skipn (fst d)) (rows_of j X))
      by (intros j; apply rows_of_map_episodes; reflexivity).
    assert (HLs : forall j, In j (labels Xs) <-> In j (labels X)).
    { apply labels_iff_rows. intros j. rewrite HXs. split; intros H0; [destruct (rows_of j X); [reflexivity|discriminate]|rewrite H0; reflexivity]. }
    assert (HLu : forall j, In j (labels Xu) <-> In j (labels X)).
    { apply labels_iff_rows. intros j. rewrite HXu. split; intros H0; [destruct (rows_of j X); [reflexivity|discriminate]|rewrite H0; reflexivity]. }
    assert (Hvs : valid (csamples_in xs 1) Xs).
    { intros j Hj. rewrite HXs, map_length. apply HLs in Hj. specialize (Hv j Hj). rlia. }
    assert (Hvu : valid (csamples_in us 1) Xu).
    { intros j Hj. rewrite HXu, map_length. apply HLu in Hj. specialize (Hv j Hj). rlia. }
    pose proof (IHx (fst d, 0) Xs Hvs) as Hsx. pose proof (IHu (0, snd d) Xu Hvu) as Hsu.
    assert (HTs : forall j, In j (labels (ctransform O xs true (fst d, 0) Xs)) <-> In j (labels Xs)).
    { eapply labels_from_spec with (w := csamples_in xs 1) (f := ctf_ep O xs (fst d, 0)).
      - exact Hsx.
      - apply ctf_ep_nil_in.
      - intros E _ HE. apply ctf_ep_count. exact HE.
      - apply (csamples_in_ge xs 1).
      - exact Hvs. }
    assert (HTu : forall j, In j (labels (ctransform O us true (0, snd d) Xu)) <-> In j (labels Xu)).
    { eapply labels_from_spec with (w := csamples_in us 1) (f := ctf_ep O us (0, snd d)).
      - exact Hsu.
      - apply ctf_ep_nil_in.
      - intros E _ HE. apply ctf_ep_count. exact HE.
      - apply (csamples_in_ge us 1).
      - exact Hvu. }
    rewrite rows_of_zip_branches.
    + rewrite Hsx, Hsu, HXs, HXu. reflexivity.
    + intros j. rewrite HTs, HTu, HLs, HLu. reflexivity.
  - (* pipe *)
    intros c IHc d X Hv i. rewrite transform_pipe, tf_ep_pipe. rewrite samples_in_pipe in Hv. apply IHc. exact Hv.
  - (* nil *)
    intros d X _ i. reflexivity.
  - (* cons *)
    intros s IHs c IHc d X Hv i. rewrite ctransform_cons, ctf_ep_cons. rewrite csamples_in_cons in Hv.
    pose proof (samples_in_additive s (csamples_in c 1)) as Ha.
    pose proof (csamples_in_ge c 1) as Hg.
    pose proof (samples_in_ge s 1) as Hg1.
    assert (Hvs : valid (samples_in s 1) X) by (intros j Hj; specialize (Hv j Hj); rlia).
    pose proof (IHs d X Hvs) as Hs.
    assert (HL : forall j, In j (labels (transform O s true d X)) <-> In j (labels X)).
    { eapply labels_from_spec with (w := samples_in s 1) (f := tf_ep O s d).
      - exact Hs.
      - apply tf_ep_nil.
      - intros E _ HE. apply tf_ep_count. exact HE.
      - exact Hg1.
      - exact Hvs. }
    rewrite IHc.
    + rewrite Hs. reflexivity.
    + intros j Hj. apply HL in Hj. rewrite Hs, (tf_ep_count s) by (specialize (Hv j Hj); rlia).
      specialize (Hv j Hj). rlia.
Qed.

(* labels are exactly preserved by a valid transform *)
Theorem transform_labels (s : stage) d (X : dmat) :
  valid (samples_in s 1) X -> forall i, In i (labels (transform O s true d X)) <-> In i (labels X).
Proof.
  intros Hv. eapply labels_from_spec with (w := samples_in s 1) (f := tf_ep O s d).
  - pose proof (transform_true s) as H. unfold true_stage in H. apply H. exact Hv.
  - apply tf_ep_nil.
  - intros E _ HE. apply tf_ep_count. exact HE.
  - apply (samples_in_ge s 1).
  - exact Hv.
Qed.

(* C04: an episode of length n yields n - min_samples + 1 lifted samples *)
Theorem transform_sample_count (s : stage) d (X : dmat) i :
  valid (min_samples s) X -> In i (labels X) ->
  length (rows_of i (transform O s true d X)) = length (rows_of i X) + 1 - min_samples s.
Proof.
  intros Hv Hi. unfold min_samples in *.
  pose proof (transform_true s) as H. unfold true_stage in H. rewrite (H d X Hv).
  apply tf_ep_count. apply Hv. exact Hi.
Qed.

(* C03: arrangement of the rows is irrelevant to every episode of the result *)
Theorem transform_arranged (s : stage) d (X X' : dmat) :
  Arranged X X' -> valid (samples_in s 1) X ->
  Arranged (transform O s true d X) (transform O s true d X').
Proof.
  intros HA Hv i.
  assert (Hv' : valid (samples_in s 1) X').
  { intros j Hj. rewrite <- (HA j). apply Hv. apply (Arranged_labels HA). exact Hj. }
  pose proof (transform_true s) as H. unfold true_stage in H.
  rewrite (H d X Hv), (H d X' Hv'), (HA i). reflexivity.
Qed.

End Sem.
