(* Executable instantiation T := Z used by the correspondence check.
   The opaque operations are given small integer-exact stand-ins that the
   harness installs on the implementation side as well (integer affine scaler,
   integer radial callable, integer kernel approximation, and an integer
   cos/sin/arctan2/unwrap proxy for the AnglePreprocessor), so that model and
   implementation can be compared cell for cell without rounding. *)
From Coq Require Import List ZArith NArith Bool Arith.
From PK Require Import PyList Episodes Stage.
Import ListNotations.
Open Scope Z_scope.

Definition zsk_sign (id c : nat) : Z := if Nat.even (id + c) then 1 else -1.
Definition zsk_off (id c : nat) : Z := Z.of_nat ((id * 7 + c * 3) mod 11) - 5.
Definition zsk_fwd (id c : nat) (x : Z) : Z := zsk_sign id c * x + zsk_off id c.
Definition zsk_inv (id c : nat) (y : Z) : Z := zsk_sign id c * (y - zsk_off id c).

Definition zsqdist (r c : list Z) : Z :=
  fold_right Z.add 0 (map2 (fun a b => (a - b) * (a - b)) r c).
Definition zradial (id : nat) (r c : list Z) : Z := (Z.of_nat id + 1) * zsqdist r c.

Definition zkern (id j : nat) (r : list Z) : Z :=
  (Z.of_nat j + 1) * fold_right Z.add 0 r + Z.of_nat id.

Definition zcos (x : Z) : Z := 2 * x + 1.
Definition zsin (x : Z) : Z := 3 * x - 1.
Definition zatan2 (s c : Z) : Z := (c - 1) / 2.

Fixpoint zcumsum_from (acc : Z) (l : list Z) : list Z :=
  match l with [] => [] | x :: t => (acc + x) :: zcumsum_from (acc + x) t end.
Definition zunwrap (l : list Z) : list Z := zcumsum_from 0 l.

Definition zleaf := leaf Z.
Definition zstage := stage Z.
Definition zchain := chain Z.

Definition ztransform : zstage -> bool -> dims -> dmat Z -> dmat Z :=
  @transform Z 1 Z.mul zcos zsin zsk_fwd zradial zkern.
Definition zctransform : zchain -> bool -> dims -> dmat Z -> dmat Z :=
  @ctransform Z 1 Z.mul zcos zsin zsk_fwd zradial zkern.
Definition zinverse : zstage -> bool -> dims -> dmat Z -> dmat Z :=
  @inverse Z 0 zatan2 zsk_inv zunwrap.
Definition zcinverse : zchain -> bool -> dims -> dmat Z -> dmat Z :=
  @cinverse Z 0 zatan2 zsk_inv zunwrap.

Definition row_eqbZ (a b : N * list Z) : bool :=
  N.eqb (fst a) (fst b) && list_eqb Z.eqb (snd a) (snd b).
Definition dmat_eqb (X Y : dmat Z) : bool := list_eqb row_eqbZ X Y.

(* a correspondence check is (id, verdict); [failed] lists the ids that disagree *)
Definition failed (checks : list (nat * bool)) : list nat :=
  map fst (filter (fun c => negb (snd c)) checks).

Definition zpair_eqb (a b : list Z * list Z) : bool :=
  list_eqb Z.eqb (fst a) (fst b) && list_eqb Z.eqb (snd a) (snd b).
Definition zpairs_eqb (l1 l2 : list (list Z * list Z)) : bool := list_eqb zpair_eqb l1 l2.
Definition rows_eqb (l1 l2 : list (list Z)) : bool := list_eqb (list_eqb Z.eqb) l1 l2.
