(* Executable instantiation T := Z used by the correspondence check.
   The opaque operations are given small integer-exact stand-ins that the
   harness installs on the implementation side as well (integer affine scaler,
   integer radial callable, integer kernel approximation, and an integer
   cos/sin/arctan2/unwrap proxy for the AnglePreprocessor), so that model and
   implementation can be compared cell for cell without rounding. *)
From Coq Require Import List ZArith NArith Bool Arith.
From PK Require Import PyList Episodes Stage.
Import ListNotations.
Open Scope Z_scope.

Definition zsk_sign (id c : nat) : Z := if Nat.even (id + c) then 1 else -1.
Definition zsk_off (id c : nat) : Z := Z.of_nat ((id * 7 + c * 3) mod 11) - 5.
Definition zsk_fwd (id c : nat) (x : Z) : Z := zsk_sign id c * x + zsk_off id c.
Definition zsk_inv (id c : nat) (y : Z) : Z := zsk_sign id c * (y - zsk_off id c).

Definition zsqdist (r c : list Z) : Z :=
  fold_right Z.add 0 (map2 (fun a b => (a - b) * (a - b)) r c).
Definition zradial (id : nat) (r c : list Z) : Z := (Z.of_nat id + 1) * zsqdist r c.

Definition zkern (id j : nat) (r : list Z) : Z :=
  (Z.of_nat j + 1) * fold_right Z.add 0 r + Z.of_nat id.

Definition zcos (x : Z) : Z := 2 * x + 1.
Definition zsin (x : Z) : Z := 3 * x - 1.
Definition zatan2 (s c : Z) : Z := (c - 1) / 2.

Fixpoint zcumsum_from (acc : Z) (l : list Z) : list Z :=
  match l with [] => [] | x :: t => (acc + x) :: zcumsum_from (acc + x) t end.
Definition zunwrap (l : list Z) : list Z := zcumsum_from 0 l.

Definition zlab (x : Z) : N := Z.to_N x.
Definition zinj (n : N) : Z := Z.of_N n.

Definition zops : ops Z := {|
  op_t0 := 0; op_t1 := 1; op_add := Z.add; op_mul := Z.mul;
  op_cos := zcos; op_sin := zsin; op_atan2 := zatan2;
  op_sk_fwd := zsk_fwd; op_sk_inv := zsk_inv;
  op_radial := zradial; op_kern := zkern; op_unwrap := zunwrap;
  op_inj := zinj; op_lab := zlab |}.

Definition zleaf := leaf Z.
Definition zstage := stage Z.
Definition zchain := chain Z.

Definition ztransform : zstage -> bool -> dims -> dmat Z -> dmat Z := transform zops.
Definition zctransform : zchain -> bool -> dims -> dmat Z -> dmat Z := ctransform zops.
Definition zinverse : zstage -> bool -> dims -> dmat Z -> dmat Z := inverse zops.
Definition zcinverse : zchain -> bool -> dims -> dmat Z -> dmat Z := cinverse zops.

Definition row_eqbZ (a b : N * list Z) : bool :=
  N.eqb (fst a) (fst b) && list_eqb Z.eqb (snd a) (snd b).
Definition dmat_eqb (X Y : dmat Z) : bool := list_eqb row_eqbZ X Y.

(* a correspondence check is (id, verdict); [failed] lists the ids that disagree *)
Definition failed (checks : list (nat * bool)) : list nat :=
  map fst (filter (fun c => negb (snd c)) checks).

Definition zpair_eqb (a b : list Z * list Z) : bool :=
  list_eqb Z.eqb (fst a) (fst b) && list_eqb Z.eqb (snd a) (snd b).
Definition zpairs_eqb (l1 l2 : list (list Z * list Z)) : bool := list_eqb zpair_eqb l1 l2.
Definition rows_eqb (l1 l2 : list (list Z)) : bool := list_eqb (list_eqb Z.eqb) l1 l2.

(* ---- helpers / prediction at T := Z *)
From PK Require Import Helpers.
Definition zfitted := fitted Z.
Definition zlift := lift zops.
Definition zretract := retract zops.
Definition zlift_state := lift_state zops.
Definition zlift_input := lift_input zops.
Definition zretract_state := retract_state zops.
Definition zretract_input := retract_input zops.
Definition zpredict := predict zops.
Definition zpredict_trajectory := predict_trajectory zops.

(* ---- names at T := Z *)
From Coq Require Import String.
From PK Require Import Names.
Definition zskn (id : nat) : string := "IntAffine"%string.
Definition znames_out := feature_names_out (T:=Z) zskn.
Definition zsymbol_names := symbol_names (T:=Z) zskn.
Definition strs_eqb (l1 l2 : list string) : bool := list_eqb String.eqb l1 l2.
