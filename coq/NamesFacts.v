(* C19 — feature names denote their columns.
   For every stage tree, the name tree produced for column j by the name
   transformers of Names.v ([snames], mirroring every _transform_feature_names)
   evaluates ([ev]) on an episode to the content of column j of the transformed
   episode ([tf_ep], to which the model's [transform] is tied by EpisodeSem.v).

   Structure:
     - [evs tau names]   : the row of values of a list of names at time tau
     - [den names M o]   : names DENOTE the matrix M with time offset o
                           (row t of M is the row of values at time t + o)
     - every row-wise leaf preserves [den] with the same offset,
       the delay leaf adds max dx du to the offset, chains compose (offsets
       add up to samples_in - 1), Split works branch-wise with [align].
   The only algebraic premise is [H_mul1l] (t1 is a LEFT unit of the product);
   it is used by the polynomial leaf only (the name drops zero exponents, the
   data path multiplies by x^0 = t1).  [op_mul x t1 = x] is NOT needed; that
   [H_mul1l] cannot be dropped is shown by NamesExample.mul1l_needed.

   Main results (all for every stage tree, any nesting):
     snames_length / cnames_length      one name per lifted column
     snames_den / cnames_den            the invariant [den] over arbitrary current names
     names_denote_general               MAIN for any input names that denote the episode
     names_denote                       MAIN for ins = map NCol (seq 0 (ns + nu))
     names_denote_default / _user       MAIN for the generated x_k/u_k names / verbatim user names
     names_denote_transform_false/true  MAIN on the model's [transform] (per episode)
     feature_names_out_eq, _length, _episode_first, _no_episode, _nth, _none,
     _override, _count                  get_feature_names_out: episode name and override
   Build order: NamesLists.v, NamesFacts.v, NamesExample.v. *)
From Coq Require Import List ZArith NArith Bool Arith Lia.
From Coq Require String.
From PK Require Import PyList ListFacts Episodes EpisodesFacts Stage StageEqns StageSpec
  StageFacts EpisodeSem NonInterf Names NamesLists.
Import ListNotations.
Open Scope list_scope.

Set Implicit Arguments.

Local Ltac rlia := unfold Episodes.row in *; lia.

(* ---------------------------------------------------------------- lengths of the name lists
   (independent of any episode and of any algebraic law) *)
Section NameLengths.
Variable T : Type.
Notation stage := (stage T).
Notation chain := (chain T).
Notation nm := (nm T).

Lemma angle_names_length (m : list bool) : forall (names : list nm),
  length m = length names ->
  length (flat_map (fun ba : bool * nm => if fst ba then [NCos (snd ba); NSin (snd ba)] else [snd ba])
                   (zip m names)) = length names + count_true m.
Proof.
  induction m as [|b m IH]; intros [|a names] H; cbn [length] in H; try discriminate.
  - reflexivity.
  - cbn [zip flat_map fst snd]. rewrite app_length, IH by lia. unfold count_true. cbn [filter].
    destruct b; cbn [length]; lia.
Qed.

Lemma leaf_names_length (l : leaf T) (d : dims) (names : list nm) :
  length names = dsum d -> length (leaf_names l d names) = dsum (leaf_dims l d).
Proof.
  destruct d as [ns nu]. unfold dsum. cbn [fst snd]. intros Hn.
  assert (Hx : length (firstn ns names) = ns) by (rewrite firstn_length; lia).
  assert (Hu : length (skipn ns names) = nu) by (rewrite skipn_length; lia).
  assert (Hu' : length (firstn nu (skipn ns names)) = nu) by (rewrite firstn_length; lia).
  assert (Ha : length (firstn (ns + nu) names) = ns + nu) by (rewrite firstn_length; lia).
  destruct l as [powers| | |dx du|id centers|id nf|id|feats uw]; cbn [leaf_names leaf_dims].
  - (* poly *)
    rewrite map_length. unfold poly_order, poly_nso, poly_nuo. cbn [fst snd]. rewrite !app_length. lia.
  - (* bilinear *)
    rewrite app_length, Ha.
    rewrite (@flat_map_length_const _ _ _ _ ns) by (intros; rewrite map_length; exact Hx).
    rewrite Hu'. cbn [fst snd]. lia.
  - (* const *)
    rewrite !app_length, Hx, Hu. cbn [length fst snd]. lia.
  - (* delay *)
    rewrite app_length.
    rewrite (@flat_map_length_const _ _ _ _ ns) by (intros; rewrite map_length; exact Hx).
    rewrite (@flat_map_length_const _ _ _ _ nu) by (intros; rewrite map_length; exact Hu').
    rewrite !seq_length. cbn [fst snd]. lia.
  - (* rbf *)
    rewrite app_length, mapi_length, Ha. destruct (Nat.eqb nu 0); cbn [fst snd]; lia.
  - (* kernel *)
    rewrite app_length, map_length, seq_length, Ha. destruct (Nat.eqb nu 0); cbn [fst snd]; lia.
  - (* sklearn *)
    rewrite mapi_length, Ha. cbn [fst snd]. reflexivity.
  - (* angle *)
    rewrite angle_names_length by (rewrite angle_mask_length; lia).
    rewrite (count_true_split ns (angle_mask feats (ns + nu))). cbn [fst snd].
    pose proof (count_true_le (firstn ns (angle_mask feats (ns + nu)))) as H1.
    pose proof (count_true_le (skipn ns (angle_mask feats (ns + nu)))) as H2.
    rewrite firstn_length, angle_mask_length in H1. rewrite skipn_length, angle_mask_length in H2.
    lia.
Qed.

Definition len_stage (s : stage) : Prop :=
  forall d (names : list nm), wf s d = true -> length names = dsum d ->
    length (snames s d names) = dsum (sdims s d).
Definition len_chain (c : chain) : Prop :=
  forall d (names : list nm), cwf c d = true -> length names = dsum d ->
    length (cnames c d names) = dsum (cdims c d).

Lemma snames_unfold_split (xs us : chain) d (names : list nm) :
  snames (Split xs us) d names
  = cnames xs (fst d, 0) (firstn (fst d) names) ++ cnames us (0, snd d) (skipn (fst d) names).
Proof. reflexivity. Qed.
Lemma snames_unfold_leaf (l : leaf T) d (names : list nm) : snames (Leaf l) d names = leaf_names l d names.
Proof. reflexivity. Qed.
Lemma snames_unfold_pipe (c : chain) d (names : list nm) : snames (Pipe c) d names = cnames c d names.
Proof. reflexivity. Qed.
Lemma cnames_unfold_nil d (names : list nm) : cnames (CNil T) d names = names.
Proof. reflexivity. Qed.
Lemma cnames_unfold_cons (s : stage) c d (names : list nm) :
  cnames (CCons s c) d names = cnames c (sdims s d) (snames s d names).
Proof. reflexivity. Qed.

Theorem snames_length : forall s, len_stage s.
Proof.
  apply (stage_mut len_stage len_chain).
  - intros l d names _ Hn. rewrite snames_unfold_leaf, sdims_leaf. apply leaf_names_length. exact Hn.
  - intros xs IHx us IHu [ns nu] names Hwf Hn. unfold dsum in *. cbn [fst snd] in *.
    rewrite wf_split in Hwf. cbn [fst snd] in Hwf.
    apply andb_prop in Hwf. destruct Hwf as [Hwf Hu0].
    apply andb_prop in Hwf. destruct Hwf as [Hwf Hx0].
    apply andb_prop in Hwf. destruct Hwf as [Hwx Hwu].
    apply Nat.eqb_eq in Hx0. apply Nat.eqb_eq in Hu0.
    rewrite snames_unfold_split, sdims_split, app_length. cbn [fst snd].
    rewrite (IHx (ns, 0) _ Hwx) by (unfold dsum; cbn [fst snd]; rewrite firstn_length; lia).
    rewrite (IHu (0, nu) _ Hwu) by (unfold dsum; cbn [fst snd]; rewrite skipn_length; lia).
    unfold dsum. lia.
  - intros c IHc d names Hwf Hn. rewrite wf_pipe in Hwf. rewrite snames_unfold_pipe, sdims_pipe.
    apply IHc; assumption.
  - intros d names _ Hn. exact Hn.
  - intros s IHs c IHc d names Hwf Hn. rewrite cwf_cons in Hwf. apply andb_prop in Hwf.
    destruct Hwf as [Hs Hc]. rewrite cnames_unfold_cons, cdims_cons. apply IHc; [exact Hc|].
    apply IHs; assumption.
Qed.

Theorem cnames_length : forall c, len_chain c.
Proof.
  intros c d names Hwf Hn. apply (snames_length (Pipe c) d names); [rewrite wf_pipe; exact Hwf|exact Hn].
Qed.

End NameLengths.

(* ---------------------------------------------------------------- names denote columns *)
Section Denote.
Variable T : Type.
Variable O : ops T.
Variable skn : nat -> String.string.
Variable E : list (list T).                 (* the episode: rows of the pipeline input *)
Variable cm : String.string -> nat.         (* column of a user / generated input name *)
Notation stage := (stage T).
Notation chain := (chain T).
Notation mat := (list (list T)).
Notation nm := (nm T).
Notation t0 := (op_t0 O).
Notation t1 := (op_t1 O).
Notation evn := (ev O skn E cm).

(* t1 is a left unit of the product: the polynomial names skip zero exponents,
   the data path multiplies by x^0 = t1 *)
Hypothesis H_mul1l : forall x, op_mul O (op_t1 O) x = x.

Definition evs (tau : nat) (names : list nm) : list T := map (fun a => evn a tau) names.

Definition den (names : list nm) (M : mat) (o : nat) : Prop :=
  forall t tau, t < length M -> tau = t + o -> evs tau names = nth t M [].

Lemma evs_length tau names : length (evs tau names) = length names.
Proof. apply map_length. Qed.

Lemma evs_app tau n1 n2 : evs tau (n1 ++ n2) = evs tau n1 ++ evs tau n2.
Proof. apply map_app. Qed.

Lemma evs_firstn tau n names : evs tau (firstn n names) = firstn n (evs tau names).
Proof. unfold evs. symmetry. apply firstn_map. Qed.

Lemma evs_skipn tau n names : evs tau (skipn n names) = skipn n (evs tau names).
Proof. unfold evs. symmetry. apply skipn_map. Qed.

Lemma evs_nth tau names j : j < length names -> nth j (evs tau names) t0 = evn (nth j names (NOne T)) tau.
Proof. intros H. unfold evs. apply (nth_map_lt (fun a => evn a tau)). exact H. Qed.

(* ---------- the polynomial leaf *)
Lemma mono_zip tau (p : list nat) : forall (names : list nm),
  fold_right (op_mul O) t1
    (map (fun fe : nm * nat => tpow O (evn (fst fe) tau) (snd fe))
         (filter (fun fe : nm * nat => negb (Nat.eqb (snd fe) 0)) (zip names p)))
  = fold_right (op_mul O) t1 (map2 (tpow O) (evs tau names) p).
Proof.
  induction p as [|e p IH]; intros [|a names]; try reflexivity.
  cbn [zip filter snd evs map map2 fold_right]. fold (evs tau names).
  destruct e as [|e].
  - cbn [Nat.eqb negb tpow]. rewrite H_mul1l. apply IH.
  - cbn [Nat.eqb negb map fold_right fst snd]. f_equal. apply IH.
Qed.

Lemma mono_name tau (powers : list (list nat)) (names : list nm) j :
  evn (nth j (map (fun p => NMono (filter (fun fe : nm * nat => negb (Nat.eqb (snd fe) 0)) (zip names p))) powers)
             (NOne T)) tau
  = monomial O (nth j powers []) (evs tau names).
Proof.
  destruct (Nat.lt_ge_cases j (length powers)) as [Hlt|Hge].
  - rewrite (nth_map_lt _ powers []) by exact Hlt.
    cbn [ev]. unfold monomial. apply mono_zip.
  - rewrite !nth_overflow by (try rewrite map_length; exact Hge).
    unfold monomial. destruct (evs tau names); reflexivity.
Qed.

(* ---------- the angle leaf *)
Lemma angle_names tau (m : list bool) : forall (names : list nm),
  evs tau (flat_map (fun ba : bool * nm => if fst ba then [NCos (snd ba); NSin (snd ba)] else [snd ba])
                    (zip m names))
  = angle_row O m (evs tau names).
Proof.
  induction m as [|b m IH]; intros [|a names]; try reflexivity.
  cbn [zip flat_map fst snd]. rewrite evs_app, IH. cbn [evs map angle_row]. fold (evs tau names).
  destruct b; reflexivity.
Qed.

(* ---------- every row-wise leaf: the names of the output row evaluate to the output row *)
Lemma leaf_row_names (l : leaf T) ns nu (names : list nm) tau :
  (match l with LDelay _ _ _ => False | _ => True end) ->
  length names = ns + nu ->
  evs tau (leaf_names l (ns, nu) names) = leaf_row O l (ns, nu) (evs tau names).
Proof.
  intros Hk Hn.
  assert (Hall : firstn (ns + nu) names = names) by (apply firstn_exact_all; exact Hn).
  assert (Hus : firstn nu (skipn ns names) = skipn ns names) by (apply firstn_skipn_exact; exact Hn).
  destruct l as [powers| | |dx du|id centers|id nf|id|feats uw]; cbn [leaf_names leaf_row].
  - (* poly: same re-ordering [poly_order] on both sides, monomial by monomial *)
    unfold evs at 1. rewrite map_map. apply map_ext. intros j. apply mono_name.
  - (* bilinear *)
    rewrite Hall, Hus. unfold bilinear_row. rewrite <- evs_firstn, <- evs_skipn.
    rewrite evs_app. rewrite <- (firstn_skipn ns names) at 1. rewrite evs_app, <- app_assoc.
    f_equal. f_equal. unfold evs. rewrite map_flat_map, flat_map_map.
    apply flat_map_ext. intros u. rewrite !map_map. reflexivity.
  - (* const *)
    unfold const_row. rewrite !evs_app, evs_firstn, evs_skipn. reflexivity.
  - contradiction.
  - (* rbf: args are the names of the whole current row *)
    rewrite Hall, evs_app. f_equal. unfold evs, mapi. rewrite map_mapi_from.
    exact (mapi_from_as_map (fun c => op_radial O id (map (fun a => evn a tau) names) c) 0 centers).
  - (* kernel *)
    rewrite Hall, evs_app. f_equal. unfold evs. rewrite map_map. reflexivity.
  - (* sklearn, column-wise *)
    rewrite Hall. unfold evs, mapi. rewrite map_mapi_from, mapi_from_map. reflexivity.
  - (* angle *)
    apply angle_names.
Qed.

Lemma den_offset names M o o' : o = o' -> den names M o -> den names M o'.
Proof. intros ->. exact (fun H => H). Qed.

Lemma den_rowwise (l : leaf T) ns nu (names : list nm) (M : mat) o :
  (match l with LDelay _ _ _ => False | _ => True end) ->
  length names = ns + nu -> den names M o ->
  den (leaf_names l (ns, nu) names) (map (leaf_row O l (ns, nu)) M) o.
Proof.
  intros Hk Hn Hd t tau Ht Htau. rewrite map_length in Ht.
  rewrite (nth_map_lt _ M []) by exact Ht.
  rewrite leaf_row_names by assumption. f_equal. apply Hd; assumption.
Qed.

(* ---------- the delay leaf *)
Lemma hconcat_lt (blocks : list mat) t :
  blocks <> [] -> (forall b, In b blocks -> t < length b) -> t < length (hconcat blocks).
Proof.
  induction blocks as [|b bs IH]; intros Hne H; [congruence|].
  destruct bs as [|b' bs].
  - cbn [hconcat]. apply H. left; reflexivity.
  - change (hconcat (b :: b' :: bs)) with (hstack b (hconcat (b' :: bs))).
    unfold hstack. rewrite map2_length.
    assert (t < length (hconcat (b' :: bs))) by (apply IH; [discriminate|intros x Hx; apply H; right; exact Hx]).
    assert (t < length b) by (apply H; left; reflexivity). lia.
Qed.

Lemma hconcat_nth (blocks : list mat) t :
  (forall b, In b blocks -> t < length b) ->
  nth t (hconcat blocks) [] = flat_map (fun b => nth t b []) blocks.
Proof.
  induction blocks as [|b bs IH]; intros H.
  - destruct t; reflexivity.
  - destruct bs as [|b' bs].
    + cbn [hconcat flat_map]. rewrite app_nil_r. reflexivity.
    + change (hconcat (b :: b' :: bs)) with (hstack b (hconcat (b' :: bs))).
      rewrite nth_hstack.
      * rewrite IH by (intros x Hx; apply H; right; exact Hx). reflexivity.
      * apply H. left; reflexivity.
      * apply hconcat_lt; [discriminate|intros x Hx; apply H; right; exact Hx].
Qed.

(* row t of the delay matrix: the rows t+n, t+n-1, ..., t of the episode, side by side *)
Lemma delay_nth n (M : mat) t :
  n <= length M -> t < length M - n ->
  nth t (delay n M) [] = flat_map (fun dl => nth (t + n - dl) M []) (seq 0 (n + 1)).
Proof.
  intros Hn Ht. unfold delay.
  assert (Hsl : forall i, i <= n ->
            pyslice (Z.of_nat i) (Z.of_nat (length M) - Z.of_nat n + Z.of_nat i) M
            = pyslice (Z.of_nat i) (Z.of_nat (length M - n + i)) M).
  { intros i Hi. f_equal. lia. }
  rewrite hconcat_nth.
  - unfold delay_blocks. rewrite flat_map_map. rewrite Nat.add_1_r, rev_seq_S, flat_map_map.
    apply flat_map_ext_in. intros dl Hdl. apply in_seq in Hdl.
    rewrite Hsl by lia. rewrite nth_pyslice by lia. f_equal. lia.
  - intros b Hb. unfold delay_blocks in Hb. apply in_map_iff in Hb. destruct Hb as [i [<- Hi]].
    apply in_rev, in_seq in Hi. rewrite Hsl by lia.
    unfold pyslice, norm_idx.
    destruct (Z.ltb_spec (Z.of_nat i) 0); [lia|].
    destruct (Z.ltb_spec (Z.of_nat (length M - n + i)) 0); [lia|].
    rewrite firstn_length, skipn_length. lia.
Qed.

Lemma align_nth (Es Eu : mat) t :
  t < Nat.min (length Es) (length Eu) ->
  nth t (align Es Eu) []
  = nth (length Es - Nat.min (length Es) (length Eu) + t) Es []
    ++ nth (length Eu - Nat.min (length Es) (length Eu) + t) Eu [].
Proof.
  intros Ht. unfold align. set (n := Nat.min (length Es) (length Eu)) in *.
  rewrite nth_hstack.
  - rewrite !nth_last_rows by lia. reflexivity.
  - rewrite last_rows_length; lia.
  - rewrite last_rows_length; lia.
Qed.

Lemma evs_delay_block tau (xs : list nm) n :
  evs tau (flat_map (fun dl => map (fun a => if Nat.eqb dl 0 then a else NDelay dl a) xs) (seq 0 (n + 1)))
  = flat_map (fun dl => evs (tau - dl) xs) (seq 0 (n + 1)).
Proof.
  unfold evs. rewrite map_flat_map. apply flat_map_ext. intros dl. rewrite map_map.
  apply map_ext. intros a. destruct (Nat.eqb_spec dl 0) as [->|_]; [rewrite Nat.sub_0_r|]; reflexivity.
Qed.

Lemma den_delay ns nu dx du (names : list nm) (M : mat) o :
  length names = ns + nu -> Nat.max dx du <= length M -> den names M o ->
  den (leaf_names (LDelay T dx du) (ns, nu) names) (delay_ep (ns, nu) dx du M) (o + Nat.max dx du).
Proof.
  intros Hn Hmax Hd t tau Ht Htau. rewrite delay_ep_length in Ht by exact Hmax.
  cbn [leaf_names]. unfold delay_ep. cbn [fst].
  fold (align (delay dx (map (firstn ns) M)) (delay du (map (skipn ns) M))).
  assert (Hlx : length (delay dx (map (firstn ns) M)) = length M - dx)
    by (rewrite delay_length by (rewrite map_length; lia); rewrite map_length; reflexivity).
  assert (Hlu : length (delay du (map (skipn ns) M)) = length M - du)
    by (rewrite delay_length by (rewrite map_length; lia); rewrite map_length; reflexivity).
  rewrite align_nth by (rewrite Hlx, Hlu; lia). rewrite Hlx, Hlu.
  rewrite !delay_nth by (rewrite map_length; lia).
  rewrite evs_app, !evs_delay_block. f_equal.
  - apply flat_map_ext_in. intros dl Hdl. apply in_seq in Hdl.
    rewrite (nth_map_lt _ M []) by lia.
    rewrite evs_firstn. f_equal.
    replace (length M - dx - Nat.min (length M - dx) (length M - du) + t + dx - dl)
      with (t + Nat.max dx du - dl) by lia.
    apply Hd; lia.
  - apply flat_map_ext_in. intros dl Hdl. apply in_seq in Hdl.
    rewrite (nth_map_lt _ M []) by lia.
    rewrite evs_firstn, evs_skipn.
    replace (length M - du - Nat.min (length M - dx) (length M - du) + t + du - dl)
      with (t + Nat.max dx du - dl) by lia.
    rewrite <- (Hd (t + Nat.max dx du - dl) (tau - dl)) by lia.
    apply firstn_all2. rewrite skipn_length, evs_length. lia.
Qed.

(* ---------- plumbing of Split: column blocks and the trailing alignment *)
Lemma den_firstn n (names : list nm) (M : mat) o :
  den names M o -> den (firstn n names) (map (firstn n) M) o.
Proof.
  intros Hd t tau Ht Htau. rewrite map_length in Ht.
  rewrite (nth_map_lt _ M []) by exact Ht. rewrite evs_firstn. f_equal. apply Hd; assumption.
Qed.

Lemma den_skipn n (names : list nm) (M : mat) o :
  den names M o -> den (skipn n names) (map (skipn n) M) o.
Proof.
  intros Hd t tau Ht Htau. rewrite map_length in Ht.
  rewrite (nth_map_lt _ M []) by exact Ht. rewrite evs_skipn. f_equal. apply Hd; assumption.
Qed.

Lemma den_align (n1 n2 : list nm) (M1 M2 : mat) o1 o2 o :
  den n1 M1 o1 -> den n2 M2 o2 ->
  o = o1 + (length M1 - Nat.min (length M1) (length M2)) ->
  o = o2 + (length M2 - Nat.min (length M1) (length M2)) ->
  den (n1 ++ n2) (align M1 M2) o.
Proof.
  intros H1 H2 Ho1 Ho2 t tau Ht Htau. rewrite align_length in Ht.
  rewrite align_nth by exact Ht. rewrite evs_app. f_equal; [apply H1|apply H2]; lia.
Qed.

(* ---------- the invariant, for every stage tree *)
Definition den_stage (s : stage) : Prop :=
  forall d (names : list nm) (M : mat) o,
    wf s d = true -> length names = dsum d -> samples_in s 1 <= length M ->
    den names M o -> den (snames s d names) (tf_ep O s d M) (o + (samples_in s 1 - 1)).
Definition den_chain (c : chain) : Prop :=
  forall d (names : list nm) (M : mat) o,
    cwf c d = true -> length names = dsum d -> csamples_in c 1 <= length M ->
    den names M o -> den (cnames c d names) (ctf_ep O c d M) (o + (csamples_in c 1 - 1)).

Theorem snames_den : forall s, den_stage s.
Proof.
  apply (stage_mut den_stage den_chain).
  - (* leaf *)
    intros l [ns nu] names M o _ Hn HL Hd. unfold dsum in Hn. cbn [fst snd] in Hn.
    rewrite snames_unfold_leaf, tf_ep_leaf. rewrite samples_in_leaf in *.
    destruct l as [powers| | |dx du|id centers|id nf|id|feats uw]; unfold leaf_samples_in in *;
      try (cbn [leaf_ep]; apply (@den_offset _ _ o); [lia|]; apply den_rowwise; [exact I|exact Hn|exact Hd]).
    cbn [leaf_ep]. apply (@den_offset _ _ (o + Nat.max dx du)); [lia|]. apply den_delay; [exact Hn|lia|exact Hd].
  - (* split *)
    intros xs IHx us IHu [ns nu] names M o Hwf Hn HL Hd. unfold dsum in Hn. cbn [fst snd] in Hn.
    rewrite wf_split in Hwf. cbn [fst snd] in Hwf.
    apply andb_prop in Hwf. destruct Hwf as [Hwf Hu0].
    apply andb_prop in Hwf. destruct Hwf as [Hwf Hx0].
    apply andb_prop in Hwf. destruct Hwf as [Hwx Hwu].
    rewrite samples_in_split in *. rewrite snames_unfold_split, tf_ep_split. cbn [fst snd].
    pose proof (csamples_in_ge xs 1) as Hgx. pose proof (csamples_in_ge us 1) as Hgu.
    assert (Hdx : den (cnames xs (ns, 0) (firstn ns names)) (ctf_ep O xs (ns, 0) (map (firstn ns) M))
                      (o + (csamples_in xs 1 - 1))).
    { apply IHx; [exact Hwx| | |apply den_firstn; exact Hd].
      - unfold dsum. cbn [fst snd]. rewrite firstn_length. lia.
      - rewrite map_length. lia. }
    assert (Hdu : den (cnames us (0, nu) (skipn ns names)) (ctf_ep O us (0, nu) (map (skipn ns) M))
                      (o + (csamples_in us 1 - 1))).
    { apply IHu; [exact Hwu| | |apply den_skipn; exact Hd].
      - unfold dsum. cbn [fst snd]. rewrite skipn_length. lia.
      - rewrite map_length. lia. }
    eapply den_align; [exact Hdx|exact Hdu| |];
      rewrite !(ctf_ep_count O) by (rewrite map_length; lia); rewrite !map_length; lia.
  - (* pipe *)
    intros c IHc d names M o Hwf Hn HL Hd. rewrite wf_pipe in Hwf. rewrite samples_in_pipe in *.
    rewrite snames_unfold_pipe, tf_ep_pipe. apply IHc; assumption.
  - (* nil *)
    intros d names M o _ _ _ Hd. rewrite cnames_unfold_nil, ctf_ep_nil, csamples_in_nil.
    apply (@den_offset _ _ o); [lia|exact Hd].
  - (* cons *)
    intros s IHs c IHc d names M o Hwf Hn HL Hd. rewrite cwf_cons in Hwf.
    apply andb_prop in Hwf. destruct Hwf as [Hws Hwc].
    rewrite csamples_in_cons in *. rewrite cnames_unfold_cons, ctf_ep_cons.
    pose proof (samples_in_additive s (csamples_in c 1)) as Ha.
    pose proof (csamples_in_ge c 1) as Hg.
    pose proof (samples_in_ge s 1) as Hg1.
    apply (@den_offset _ _ (o + (samples_in s 1 - 1) + (csamples_in c 1 - 1))); [lia|].
    apply IHc.
    + exact Hwc.
    + apply snames_length; assumption.
    + rewrite (tf_ep_count O s) by lia. lia.
    + apply IHs; [exact Hws|exact Hn|lia|exact Hd].
Qed.

Theorem cnames_den : forall c, den_chain c.
Proof.
  intros c d names M o Hwf Hn HL Hd.
  apply (@snames_den (Pipe c) d names M o); [rewrite wf_pipe; exact Hwf|exact Hn|exact HL|exact Hd].
Qed.

(* ---------- the input names *)
Lemma map_nth_seq {A} (r : list A) d : map (fun k => nth k r d) (seq 0 (length r)) = r.
Proof.
  induction r as [|a r IH]; [reflexivity|].
  cbn [length seq map nth]. f_equal. rewrite <- seq_shift, map_map. exact IH.
Qed.

Lemma den_input_cols w : wid w E -> den (map (@NCol T) (seq 0 w)) E 0.
Proof.
  intros Hw t tau Ht ->. rewrite Nat.add_0_r. unfold evs. rewrite map_map. cbn [ev]. unfold cell.
  assert (Hl : length (nth t E []) = w) by (apply Hw, nth_In, Ht).
  rewrite <- Hl at 1. apply map_nth_seq.
Qed.

(* from the row equation to single cells *)
Lemma den_cell (names : list nm) (M : mat) o t j :
  den names M o -> t < length M -> j < length names ->
  evn (nth j names (NOne T)) (t + o) = nth j (nth t M []) t0.
Proof.
  intros Hd Ht Hj. rewrite <- (Hd t (t + o) Ht eq_refl). symmetry. apply evs_nth. exact Hj.
Qed.

(* ---------- MAIN, for arbitrary input names that denote the episode *)
Theorem names_denote_general (s : stage) (d : dims) (ins : list nm) :
  wf s d = true -> length ins = fst d + snd d -> samples_in s 1 <= length E ->
  (forall tau, tau < length E -> evs tau ins = nth tau E []) ->
  (forall t j, t < length (tf_ep O s d E) -> j < length (snames s d ins) ->
     evn (nth j (snames s d ins) (NOne T)) (t + (samples_in s 1 - 1))
     = nth j (nth t (tf_ep O s d E) []) t0)
  /\ length (snames s d ins) = fst (sdims s d) + snd (sdims s d).
Proof.
  intros Hwf Hn HL Hin. split.
  - intros t j Ht Hj.
    assert (Hd : den ins E 0) by (intros t' tau Ht' ->; rewrite Nat.add_0_r; apply Hin; exact Ht').
    pose proof (@snames_den s d ins E 0 Hwf Hn HL Hd) as H. cbn [Nat.add] in H.
    apply (den_cell H Ht Hj).
  - apply (@snames_length T s d ins Hwf Hn).
Qed.

(* ---------- MAIN *)
Theorem names_denote (s : stage) (ns nu : nat) :
  wf s (ns, nu) = true -> wid (ns + nu) E -> samples_in s 1 <= length E ->
  let ins := map (@NCol T) (seq 0 (ns + nu)) in
  (forall t j, t < length (tf_ep O s (ns, nu) E) -> j < length (snames s (ns, nu) ins) ->
     ev O skn E cm (nth j (snames s (ns, nu) ins) (NOne T)) (t + (samples_in s 1 - 1))
     = nth j (nth t (tf_ep O s (ns, nu) E) []) (op_t0 O))
  /\ length (snames s (ns, nu) ins) = fst (sdims s (ns, nu)) + snd (sdims s (ns, nu)).
Proof.
  intros Hwf Hw HL ins. apply names_denote_general.
  - exact Hwf.
  - unfold ins. rewrite map_length, seq_length. reflexivity.
  - exact HL.
  - intros tau Htau. apply (den_input_cols Hw Htau). lia.
Qed.

End Denote.

(* ---------------------------------------------------------------- the names the library generates /
   accepts: default x_k / u_k names and verbatim user names, under a column map
   that sends each input name to its column *)
Section InputNames.
Variable T : Type.
Variable O : ops T.
Variable skn : nat -> String.string.
Variable E : list (list T).
Variable cm : String.string -> nat.
Hypothesis H_mul1l : forall x, op_mul O (op_t1 O) x = x.
Notation stage := (stage T).
Notation nm := (nm T).

Lemma map_nth_firstn {A} (r : list A) n d : n <= length r -> map (fun k => nth k r d) (seq 0 n) = firstn n r.
Proof.
  intros H. rewrite <- (map_nth_seq (firstn n r) d). rewrite firstn_length, Nat.min_l by exact H.
  apply map_ext_in. intros k Hk. apply in_seq in Hk. symmetry. apply nth_firstn_lt'. lia.
Qed.

Lemma map_nth_skipn {A} (r : list A) n m d : length r = n + m -> map (fun k => nth (n + k) r d) (seq 0 m) = skipn n r.
Proof.
  intros H. rewrite <- (map_nth_seq (skipn n r) d). rewrite skipn_length.
  replace (length r - n) with m by lia.
  apply map_ext. intros k. symmetry. apply nth_skipn.
Qed.

(* get_feature_names_out() with the generated names x0.. / u0.. *)
Theorem names_denote_default (s : stage) (ns nu : nat) :
  wf s (ns, nu) = true -> wid (ns + nu) E -> samples_in s 1 <= length E ->
  (forall k, k < ns -> cm (render skn false (NX T k)) = k) ->
  (forall k, k < nu -> cm (render skn false (NU T k)) = ns + k) ->
  let ins := default_names T (ns, nu) in
  (forall t j, t < length (tf_ep O s (ns, nu) E) -> j < length (snames s (ns, nu) ins) ->
     ev O skn E cm (nth j (snames s (ns, nu) ins) (NOne T)) (t + (samples_in s 1 - 1))
     = nth j (nth t (tf_ep O s (ns, nu) E) []) (op_t0 O))
  /\ length (snames s (ns, nu) ins) = fst (sdims s (ns, nu)) + snd (sdims s (ns, nu)).
Proof.
  intros Hwf Hw HL Hx Hu ins. apply names_denote_general; [exact H_mul1l|exact Hwf| |exact HL|].
  - unfold ins, default_names. cbn [fst snd]. rewrite app_length, !map_length, !seq_length. reflexivity.
  - intros tau Htau. unfold ins, default_names, evs. cbn [fst snd].
    assert (Hl : length (nth tau E []) = ns + nu) by (apply Hw, nth_In, Htau).
    rewrite map_app, !map_map. cbn [ev]. unfold cell.
    transitivity (firstn ns (nth tau E []) ++ skipn ns (nth tau E [])); [|apply firstn_skipn]. f_equal.
    + rewrite <- (@map_nth_firstn _ (nth tau E []) ns (op_t0 O)) by lia.
      apply map_ext_in. intros k Hk. apply in_seq in Hk. rewrite Hx by lia. reflexivity.
    + rewrite <- (@map_nth_skipn _ (nth tau E []) ns nu (op_t0 O) Hl).
      apply map_ext_in. intros k Hk. apply in_seq in Hk. rewrite Hu by lia. reflexivity.
Qed.

(* get_feature_names_out(input_features=...) / feature_names_in_: verbatim user names *)
Theorem names_denote_user (s : stage) (ns nu : nat) (l : list String.string) :
  wf s (ns, nu) = true -> wid (ns + nu) E -> samples_in s 1 <= length E ->
  length l = ns + nu ->
  (forall k, k < ns + nu -> cm (nth k l String.EmptyString) = k) ->
  let ins := map (@NUser T) l in
  (forall t j, t < length (tf_ep O s (ns, nu) E) -> j < length (snames s (ns, nu) ins) ->
     ev O skn E cm (nth j (snames s (ns, nu) ins) (NOne T)) (t + (samples_in s 1 - 1))
     = nth j (nth t (tf_ep O s (ns, nu) E) []) (op_t0 O))
  /\ length (snames s (ns, nu) ins) = fst (sdims s (ns, nu)) + snd (sdims s (ns, nu)).
Proof.
  intros Hwf Hw HL Hlen Hcm ins. apply names_denote_general; [exact H_mul1l|exact Hwf| |exact HL|].
  - unfold ins. rewrite map_length. exact Hlen.
  - intros tau Htau. unfold ins, evs. rewrite map_map. cbn [ev]. unfold cell.
    assert (Hl : length (nth tau E []) = ns + nu) by (apply Hw, nth_In, Htau).
    set (r := nth tau E []) in *.
    transitivity (map (fun k => nth k r (op_t0 O)) (seq 0 (length r))); [|apply map_nth_seq].
    rewrite Hl, <- Hlen.
    etransitivity; [apply f_equal; symmetry; apply (map_nth_seq l String.EmptyString)|].
    rewrite map_map.
    apply map_ext_in. intros k Hk. apply in_seq in Hk. rewrite Hcm by lia. reflexivity.
Qed.

End InputNames.

(* ---------------------------------------------------------------- MAIN transported to the model's
   [transform] (through transform_false / transform_true of EpisodeSem.v) *)
Section OnTransform.
Variable T : Type.
Variable O : ops T.
Variable skn : nat -> String.string.
Variable cm : String.string -> nat.
Hypothesis H_mul1l : forall x, op_mul O (op_t1 O) x = x.
Notation stage := (stage T).

(* episode_feature = False: the whole matrix is the one episode *)
Theorem names_denote_transform_false (s : stage) (ns nu : nat) (X : dmat T) :
  wf s (ns, nu) = true -> dwid (ns + nu) X -> samples_in s 1 <= length X ->
  let ins := map (@NCol T) (seq 0 (ns + nu)) in
  let Y := rows (transform O s false (ns, nu) X) in
  forall t j, t < length Y -> j < length (snames s (ns, nu) ins) ->
    ev O skn (rows X) cm (nth j (snames s (ns, nu) ins) (NOne T)) (t + (samples_in s 1 - 1))
    = nth j (nth t Y []) (op_t0 O).
Proof.
  intros Hwf HX HL ins Y. unfold Y. rewrite (transform_false O s (ns, nu) X).
  assert (HL' : samples_in s 1 <= length (rows X)) by (unfold rows; rewrite map_length; exact HL).
  destruct (@names_denote T O skn (rows X) cm H_mul1l s ns nu Hwf HX HL') as [H _]. exact H.
Qed.

(* episode_feature = True: episode by episode *)
Theorem names_denote_transform_true (s : stage) (ns nu : nat) (X : dmat T) (i : N) :
  wf s (ns, nu) = true -> dwid (ns + nu) X -> valid (samples_in s 1) X -> In i (labels X) ->
  let ins := map (@NCol T) (seq 0 (ns + nu)) in
  let Y := rows_of i (transform O s true (ns, nu) X) in
  forall t j, t < length Y -> j < length (snames s (ns, nu) ins) ->
    ev O skn (rows_of i X) cm (nth j (snames s (ns, nu) ins) (NOne T)) (t + (samples_in s 1 - 1))
    = nth j (nth t Y []) (op_t0 O).
Proof.
  intros Hwf HX Hv Hi ins Y. unfold Y.
  pose proof (transform_true O s) as H. unfold true_stage in H. rewrite (H (ns, nu) X Hv i).
  assert (HW : wid (ns + nu) (rows_of i X)) by (intros r Hr; apply HX; eapply In_rows_of; exact Hr).
  destruct (@names_denote T O skn (rows_of i X) cm H_mul1l s ns nu Hwf HW (Hv i Hi)) as [H' _]. exact H'.
Qed.

End OnTransform.

(* ---------------------------------------------------------------- get_feature_names_out: the episode
   name and the call-time override of episode_feature *)
Section FeatureNamesOut.
Variable T : Type.
Variable skn : nat -> String.string.
Notation stage := (stage T).

(* the resolved flag, the input names and the episode name used by feature_names_out *)
Definition fno_flag (epf : bool) (call : option bool) : bool :=
  match call with None => epf | Some b => b end.
Definition fno_ins (epf : bool) (d : dims) (user : option (list String.string)) : list (nm T) :=
  match user with
  | None => default_names T d
  | Some l => map (@NUser T) (if epf then tl l else l)
  end.
Definition fno_epn (epf : bool) (user : option (list String.string)) (latex : bool) : String.string :=
  match user with
  | None => render skn latex (NEp T)
  | Some l => if epf then hd String.EmptyString l else render skn latex (NEp T)
  end.

Theorem feature_names_out_eq (s : stage) epf d user call latex :
  feature_names_out skn s epf d user call latex
  = (if fno_flag epf call then [fno_epn epf user latex] else [])
    ++ map (render skn latex) (snames s d (fno_ins epf d user)).
Proof. unfold feature_names_out, fno_flag, fno_ins, fno_epn. destruct call as [[|]|], epf; reflexivity. Qed.

Theorem feature_names_out_length (s : stage) epf d user call latex :
  length (feature_names_out skn s epf d user call latex)
  = (if fno_flag epf call then 1 else 0) + length (snames s d (fno_ins epf d user)).
Proof.
  rewrite feature_names_out_eq, app_length, map_length. destruct (fno_flag epf call); reflexivity.
Qed.

(* the first name is the episode name when the resolved flag is set ... *)
Theorem feature_names_out_episode_first (s : stage) epf d user call latex :
  fno_flag epf call = true ->
  feature_names_out skn s epf d user call latex
  = fno_epn epf user latex :: map (render skn latex) (snames s d (fno_ins epf d user)).
Proof. intros H. rewrite feature_names_out_eq, H. reflexivity. Qed.

(* ... and there is no episode name at all otherwise: every entry is the rendering
   of the name of a lifted column *)
Theorem feature_names_out_no_episode (s : stage) epf d user call latex :
  fno_flag epf call = false ->
  feature_names_out skn s epf d user call latex
  = map (render skn latex) (snames s d (fno_ins epf d user)).
Proof. intros H. rewrite feature_names_out_eq, H. reflexivity. Qed.

(* "iff", stated on positions: entry k+1 (flag set) resp. entry k (flag clear) is the
   rendered name of lifted column k, and entry 0 is the episode name iff the flag is set *)
Theorem feature_names_out_nth (s : stage) epf d user call latex k dflt :
  nth ((if fno_flag epf call then 1 else 0) + k) (feature_names_out skn s epf d user call latex) dflt
  = nth k (map (render skn latex) (snames s d (fno_ins epf d user))) dflt.
Proof. rewrite feature_names_out_eq. destruct (fno_flag epf call); reflexivity. Qed.

(* the call-time flag overrides the fit-time one: None means the fit-time value,
   and Some true only prepends the episode name to what Some false returns *)
Theorem feature_names_out_none (s : stage) epf d user latex :
  feature_names_out skn s epf d user None latex = feature_names_out skn s epf d user (Some epf) latex.
Proof. reflexivity. Qed.

Theorem feature_names_out_override (s : stage) epf d user latex :
  feature_names_out skn s epf d user (Some true) latex
  = fno_epn epf user latex :: feature_names_out skn s epf d user (Some false) latex.
Proof. rewrite !feature_names_out_eq. reflexivity. Qed.

Lemma default_names_length d : length (default_names T d) = dsum d.
Proof. unfold default_names, dsum. rewrite app_length, !map_length, !seq_length. reflexivity. Qed.

(* one name per lifted column (plus the episode name) *)
Theorem feature_names_out_count (s : stage) epf d user call latex :
  wf s d = true ->
  length (fno_ins epf d user) = dsum d ->
  length (feature_names_out skn s epf d user call latex)
  = (if fno_flag epf call then 1 else 0) + (fst (sdims s d) + snd (sdims s d)).
Proof.
  intros Hwf Hn. rewrite feature_names_out_length. f_equal.
  apply (@snames_length T s d _ Hwf Hn).
Qed.

Corollary feature_names_out_count_default (s : stage) epf d call latex :
  wf s d = true ->
  length (feature_names_out skn s epf d None call latex)
  = (if fno_flag epf call then 1 else 0) + (fst (sdims s d) + snd (sdims s d)).
Proof. intros Hwf. apply feature_names_out_count; [exact Hwf|apply default_names_length]. Qed.

End FeatureNamesOut.
