(* Round trip of the row-wise lifting functions, one row at a time (C01, leaves). *)
From Coq Require Import List ZArith NArith Bool Arith Lia.
From PK Require Import PyList ListFacts Episodes Stage StageEqns StageSpec StageFacts EpisodeSem NonInterf
  RoundtripSpec RoundtripList RoundtripDelay.
Import ListNotations.
Set Implicit Arguments.

Section Leaf.
Variable T : Type.
Variable O : ops T.
Variable inrange : T -> Prop.
Hypothesis H_atan : forall x, inrange x -> op_atan2 O (op_sin O x) (op_cos O x) = x.
Hypothesis H_sk : forall id c x, op_sk_inv O id c (op_sk_fwd O id c x) = x.
Hypothesis H_mul1l : forall x, op_mul O (op_t1 O) x = x.
Hypothesis H_mul1r : forall x, op_mul O x (op_t1 O) = x.
Notation t0 := (op_t0 O).
Notation t1 := (op_t1 O).
Notation mat := (list (list T)).

(* ------------------------------------------------------------ polynomial *)
Lemma monomial_unit_gen j (r : list T) : forall a,
  fold_right (op_mul O) t1
    (map2 (tpow O) r (map (fun k => if Nat.eqb k j then 1 else 0) (seq a (length r))))
  = if (a <=? j) && (j <? a + length r) then nth (j - a) r t0 else t1.
Proof.
  induction r as [|x r IH]; intros a.
  - cbn [length seq map map2 fold_right]. rewrite Nat.add_0_r.
    destruct (Nat.leb_spec a j), (Nat.ltb_spec j a); cbn [andb]; try reflexivity; lia.
  - cbn [length seq map map2 fold_right]. rewrite IH.
    destruct (Nat.eqb_spec a j) as [->|Hne].
    + cbn [tpow]. rewrite H_mul1r.
      destruct (Nat.leb_spec (S j) j); [lia|]. cbn [andb]. rewrite H_mul1r.
      destruct (Nat.leb_spec j j); [|lia]. destruct (Nat.ltb_spec j (j + S (length r))); [|lia].
      cbn [andb]. rewrite Nat.sub_diag. reflexivity.
    + cbn [tpow]. rewrite H_mul1l.
      destruct (Nat.leb_spec (S a) j), (Nat.leb_spec a j); try lia; cbn [andb]; try reflexivity.
      destruct (Nat.ltb_spec j (S a + length r)), (Nat.ltb_spec j (a + S (length r))); try lia; try reflexivity.
      replace (j - a) with (S (j - S a)) by lia. reflexivity.
Qed.

Lemma monomial_unit n j (r : list T) :
  length r = n -> j < n -> monomial O (unit_row n j) r = nth j r t0.
Proof.
  intros Hr Hj. unfold monomial, unit_row. subst n. rewrite monomial_unit_gen.
  cbn [Nat.leb Nat.add andb]. destruct (Nat.ltb_spec j (length r)); [|lia].
  rewrite Nat.sub_0_r. reflexivity.
Qed.

Lemma poly_orig_spec (powers : list (list nat)) n cnt : forall lo,
  (forall i, In i (seq lo cnt) -> length (find_all (row_eqb (unit_row n i)) powers) = 1) ->
  length (poly_orig powers n lo cnt) = cnt
  /\ forall i, i < cnt -> nth (nth i (poly_orig powers n lo cnt) 0) powers [] = unit_row n (lo + i).
Proof.
  unfold poly_orig. induction cnt as [|cnt IH]; intros lo H.
  - split; [reflexivity|intros i Hi; lia].
  - cbn [seq flat_map].
    pose proof (H lo (or_introl eq_refl)) as H1.
    destruct (find_all (row_eqb (unit_row n lo)) powers) as [|j [|j' l']] eqn:Hf; cbn [length] in H1; try lia.
    destruct (IH (S lo)) as [IH1 IH2]; [intros i Hi; apply H; right; exact Hi|].
    cbn [app length]. split; [rewrite IH1; reflexivity|].
    intros [|i] Hi.
    + cbn [nth]. rewrite Nat.add_0_r.
      assert (Hin : In j (find_all (row_eqb (unit_row n lo)) powers)) by (rewrite Hf; left; reflexivity).
      apply (find_all_In _ _ _ []) in Hin. destruct Hin as [_ Hq].
      unfold row_eqb in Hq. apply list_eqb_nat_eq in Hq. symmetry. exact Hq.
    + cbn [nth]. rewrite IH2 by lia. f_equal. lia.
Qed.

Lemma poly_wf_orig (powers : list (list nat)) ns nu :
  poly_wf powers (ns, nu) = true ->
  let f := poly_fit_of powers (ns, nu) in
  length (p_orig_states f) = ns /\ length (p_orig_inputs f) = nu
  /\ (forall i, i < ns -> nth (nth i (p_orig_states f) 0) powers [] = unit_row (ns + nu) i)
  /\ (forall i, i < nu -> nth (nth i (p_orig_inputs f) 0) powers [] = unit_row (ns + nu) (ns + i)).
Proof.
  intros Hwf. unfold poly_wf in Hwf. cbn [fst snd] in Hwf. apply andb_prop in Hwf. destruct Hwf as [_ Hu].
  rewrite forallb_forall in Hu.
  assert (Hall : forall lo cnt, lo + cnt <= ns + nu ->
            forall i, In i (seq lo cnt) -> length (find_all (row_eqb (unit_row (ns + nu) i)) powers) = 1).
  { intros lo cnt Hle i Hi. apply Nat.eqb_eq. apply Hu. apply in_seq in Hi. apply in_seq. lia. }
  cbn [poly_fit_of p_orig_states p_orig_inputs].
  destruct (@poly_orig_spec powers (ns + nu) ns 0 (Hall 0 ns ltac:(lia))) as [A1 A2].
  destruct (@poly_orig_spec powers (ns + nu) nu ns (Hall ns nu ltac:(lia))) as [B1 B2].
  repeat split; assumption.
Qed.

Lemma nth_map_lt {A B} (g : A -> B) (l : list A) j d d' :
  j < length l -> nth j (map g l) d = g (nth j l d').
Proof.
  intros H. rewrite (nth_indep _ d (g d')) by (rewrite map_length; exact H). apply map_nth.
Qed.

Lemma poly_row_rt (powers : list (list nat)) ns nu (r : list T) :
  poly_wf powers (ns, nu) = true -> length r = ns + nu ->
  leaf_inv_row O (LPoly T powers) (ns, nu) (leaf_row O (LPoly T powers) (ns, nu) r) = r.
Proof.
  intros Hwf Hr. destruct (poly_wf_orig _ _ _ Hwf) as [Ls [Li [Hs Hi]]].
  cbn [leaf_inv_row leaf_row leaf_dims fst].
  set (f := poly_fit_of powers (ns, nu)) in *.
  set (g := fun j => monomial O (nth j powers []) r).
  rewrite map_app.
  transitivity (map (fun j => nth j r t0) (seq 0 (ns + nu))); [|apply map_nth_seq_id; exact Hr].
  rewrite seq_app, map_app. cbn [Nat.add]. f_equal.
  - apply map_ext_in. intros j Hj. apply in_seq in Hj.
    rewrite (@nth_map_lt _ _ g _ j t0 0) by (unfold poly_order; rewrite !app_length; lia).
    unfold poly_order. rewrite app_nth1 by lia. unfold g. rewrite Hs by lia.
    apply monomial_unit; lia.
  - rewrite <- (Nat.add_0_l (poly_nso f)), <- (Nat.add_0_l ns) at 1. rewrite !map_seq_shift.
    apply map_ext_in. intros j Hj. apply in_seq in Hj.
    rewrite (@nth_map_lt _ _ g _ _ t0 0) by (unfold poly_order, poly_nso; rewrite !app_length; lia).
    unfold poly_order. rewrite app_assoc.
    rewrite app_nth2 by (rewrite app_length; unfold poly_nso; lia).
    rewrite app_length. unfold poly_nso.
    replace (length (p_orig_states f) + length (p_other_states f) + j
             - (length (p_orig_states f) + length (p_other_states f))) with j by lia.
    rewrite app_nth1 by lia. unfold g. rewrite Hi by lia.
    apply monomial_unit; lia.
Qed.

Lemma poly_row_state (powers : list (list nat)) ns nu (r : list T) :
  poly_wf powers (ns, nu) = true -> length r = ns + nu ->
  firstn ns (leaf_row O (LPoly T powers) (ns, nu) r) = firstn ns r.
Proof.
  intros Hwf Hr. destruct (poly_wf_orig _ _ _ Hwf) as [Ls [Li [Hs Hi]]].
  cbn [leaf_row]. set (f := poly_fit_of powers (ns, nu)) in *.
  rewrite firstn_map. unfold poly_order. rewrite firstn_app_exact by exact Ls.
  pose proof (@firstn_skipn_map_nth _ r t0 ns 0 ltac:(lia)) as H. cbn [skipn] in H. rewrite H.
  assert (Hos : p_orig_states f = map (fun i => nth i (p_orig_states f) 0) (seq 0 ns))
    by (rewrite <- Ls; apply list_as_map_nth).
  rewrite Hos, map_map.
  apply map_ext_in. intros j Hj. apply in_seq in Hj. rewrite Hs by lia.
  rewrite Nat.add_0_r. apply monomial_unit; lia.
Qed.

Lemma poly_nso_ge (powers : list (list nat)) ns nu :
  poly_wf powers (ns, nu) = true -> ns <= poly_nso (poly_fit_of powers (ns, nu)).
Proof.
  intros Hwf. destruct (poly_wf_orig _ _ _ Hwf) as [Ls _]. unfold poly_nso. lia.
Qed.

(* ------------------------------------------------------------ angle *)
Lemma angle_rt (m : list bool) : forall (r : list T),
  length m = length r ->
  (forall k, k < length r -> nth k m false = true -> inrange (nth k r t0)) ->
  angle_inv_row O m (angle_row O m r) = r.
Proof.
  induction m as [|b m IH]; intros [|x r] Hl Hin; cbn [length] in Hl; try discriminate; [reflexivity|].
  cbn [angle_row]. destruct b; cbn [app angle_inv_row].
  - rewrite H_atan by (apply (Hin 0); [cbn [length]; lia|reflexivity]).
    f_equal. apply IH; [lia|]. intros k Hk Hm. apply (Hin (S k)); [cbn [length]; lia|exact Hm].
  - f_equal. apply IH; [lia|]. intros k Hk Hm. apply (Hin (S k)); [cbn [length]; lia|exact Hm].
Qed.

Lemma angle_mask_nth feats n k : k < n -> nth k (angle_mask feats n) false = mem_nat k feats.
Proof. intros H. unfold angle_mask. exact (nth_map_seq (fun k => mem_nat k feats) false H). Qed.

(* ------------------------------------------------------------ every row-wise leaf *)
Definition row_angles_ok (l : leaf T) (d : dims) (r : list T) : Prop :=
  match l with
  | LAngle _ feats _ => forall k, mem_nat k feats = true -> k < fst d + snd d -> inrange (nth k r t0)
  | _ => True
  end.

Lemma leaf_row_rt (l : leaf T) ns nu (r : list T) :
  (match l with LDelay _ _ _ => False | _ => True end) ->
  leaf_wf l (ns, nu) = true -> length r = ns + nu -> row_angles_ok l (ns, nu) r ->
  leaf_inv_row O l (ns, nu) (leaf_row O l (ns, nu) r) = r.
Proof.
  intros Hk Hwf Hr Ha.
  assert (Hfs : length (firstn ns r) = ns) by (eapply firstn_length_exact; eauto).
  assert (Hsk : length (skipn ns r) = nu) by (eapply skipn_length_exact; eauto).
  destruct l as [powers| | |dx du|id centers|id nf|id|feats uw].
  - apply poly_row_rt; assumption.
  - (* bilinear *)
    cbn [leaf_inv_row leaf_row]. unfold bilinear_row.
    rewrite firstn_app_exact by exact Hfs.
    rewrite skipn_app, Hfs, Nat.sub_diag, skipn_all2 by lia. cbn [skipn app].
    rewrite firstn_app_exact by exact Hsk. apply firstn_skipn.
  - (* const *)
    cbn [leaf_inv_row leaf_row]. unfold const_row.
    rewrite firstn_app_exact by exact Hfs.
    rewrite app_assoc, skipn_app.
    assert (H1 : length (firstn ns r ++ [t1]) = ns + 1) by (rewrite app_length, Hfs; reflexivity).
    rewrite H1, Nat.sub_diag, (@skipn_all2 _ (ns + 1) (firstn ns r ++ [t1])) by lia. cbn [skipn app].
    rewrite (@firstn_all2 _ nu (skipn ns r)) by lia. apply firstn_skipn.
  - contradiction.
  - (* rbf *)
    cbn [leaf_inv_row leaf_row leaf_dims]. destruct (Nat.eqb_spec nu 0) as [->|Hn]; cbn [fst].
    + rewrite Nat.add_0_r in Hr. rewrite firstn_firstn.
      replace (Nat.min ns (ns + length centers)) with ns by lia.
      rewrite firstn_app_exact by exact Hr. cbn [firstn]. apply app_nil_r.
    + rewrite firstn_firstn, Nat.min_id. rewrite firstn_app_le by lia.
      rewrite skipn_app. replace (ns - length r) with 0 by lia. cbn [skipn].
      rewrite firstn_app_exact by exact Hsk. apply firstn_skipn.
  - (* kernel *)
    cbn [leaf_inv_row leaf_row leaf_dims]. destruct (Nat.eqb_spec nu 0) as [->|Hn]; cbn [fst].
    + rewrite Nat.add_0_r in Hr. rewrite firstn_firstn.
      replace (Nat.min ns (ns + nf)) with ns by lia.
      rewrite firstn_app_exact by exact Hr. cbn [firstn]. apply app_nil_r.
    + rewrite firstn_firstn, Nat.min_id. rewrite firstn_app_le by lia.
      rewrite skipn_app. replace (ns - length r) with 0 by lia. cbn [skipn].
      rewrite firstn_app_exact by exact Hsk. apply firstn_skipn.
  - (* sklearn *)
    cbn [leaf_inv_row leaf_row]. unfold mapi. rewrite mapi_from_mapi_from.
    apply mapi_from_id. intros i x. apply H_sk.
  - (* angle *)
    cbn [leaf_inv_row leaf_row]. apply angle_rt.
    + rewrite angle_mask_length. lia.
    + intros k Hk' Hm. rewrite angle_mask_nth in Hm by lia.
      apply Ha; [exact Hm|cbn [fst snd]; lia].
Qed.

(* the leading state columns of a lifted row are the original state
   (lifting functions that are not pre-processors) *)
Lemma leaf_row_state_id (l : leaf T) ns nu (r : list T) :
  (match l with LDelay _ _ _ => False | _ => True end) ->
  leaf_no_preproc l = true -> leaf_wf l (ns, nu) = true -> length r = ns + nu ->
  firstn ns (leaf_row O l (ns, nu) r) = firstn ns r.
Proof.
  intros Hk Hnp Hwf Hr.
  assert (Hfs : length (firstn ns r) = ns) by (eapply firstn_length_exact; eauto).
  destruct l as [powers| | |dx du|id centers|id nf|id|feats uw]; try discriminate.
  - apply poly_row_state; assumption.
  - cbn [leaf_row]. unfold bilinear_row. apply firstn_app_exact. exact Hfs.
  - cbn [leaf_row]. unfold const_row. apply firstn_app_exact. exact Hfs.
  - contradiction.
  - cbn [leaf_row]. apply firstn_app_le. lia.
  - cbn [leaf_row]. apply firstn_app_le. lia.
Qed.

(* the declared number of lifted states never shrinks *)
Lemma leaf_dims_fst_ge (l : leaf T) ns nu :
  leaf_wf l (ns, nu) = true -> ns <= fst (leaf_dims l (ns, nu)).
Proof.
  intros Hwf. destruct l as [powers| | |dx du|id centers|id nf|id|feats uw]; cbn [leaf_dims fst].
  - apply poly_nso_ge. exact Hwf.
  - lia.
  - lia.
  - nia.
  - destruct (Nat.eqb nu 0); cbn [fst]; lia.
  - destruct (Nat.eqb nu 0); cbn [fst]; lia.
  - lia.
  - pose proof (count_true_le (firstn ns (angle_mask feats (ns + nu)))) as H.
    rewrite firstn_length, angle_mask_length in H. lia.
Qed.

(* ------------------------------------------------------------ one leaf, one episode *)
Lemma leaf_ep_rt (l : leaf T) d (E : mat) :
  leaf_wf l d = true -> wid (fst d + snd d) E ->
  leaf_angles_ok O inrange l d E -> leaf_samples_in l 1 <= length E ->
  leaf_iep O l d (leaf_ep O l d E) = skipn (leaf_lag l) E.
Proof.
  destruct d as [ns nu]. cbn [fst snd]. intros Hwf Hw Ha Hl.
  assert (Hrow : (match l with LDelay _ _ _ => False | _ => True end) ->
                 map (leaf_inv_row O l (ns, nu)) (map (leaf_row O l (ns, nu)) E) = E).
  { intros Hk. rewrite map_map. rewrite <- (map_id E) at 2. apply map_ext_in. intros r Hr.
    apply leaf_row_rt; [exact Hk|exact Hwf|apply Hw; exact Hr|].
    destruct l; try exact I. cbn [row_angles_ok]. intros k Hm Hk'. exact (Ha r Hr k Hm Hk'). }
  destruct l as [powers| | |dx du|id centers|id nf|id|feats uw];
    try (cbn [leaf_iep leaf_ep leaf_lag skipn]; apply Hrow; exact I).
  cbn [leaf_iep leaf_ep leaf_lag]. cbn [leaf_samples_in] in Hl.
  apply undelay_ep_delay_ep; [exact Hw|lia].
Qed.

End Leaf.
