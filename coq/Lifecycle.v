(* C15 — estimator life cycle as a state machine.  An estimator has constructor
   parameters, a fitted state and access to shared mutable state outside itself (module
   globals, memoisation caches, caller-owned objects).  Each public call is an arbitrary
   function of everything it can reach; the FRAME CONDITIONS say what it actually reads
   and writes.  The theorem: under the frame conditions, after ANY history the fitted
   state produced by fit depends on the parameters and the data only, parameters and
   shared state are never modified, and read-only calls commute (any interleaving of
   read-only calls from any number of threads returns the sequential answers). *)
From Coq Require Import List Bool Arith.
Import ListNotations.
Set Implicit Arguments.

Section Lifecycle.
Variables (P D F S R : Type).     (* params, data, fitted state, shared state, results *)

Record est := { params : P; fitted : option F; shared : S }.

(* what the implementation does, a priori as functions of everything reachable *)
Variable fit_impl : P -> option F -> S -> D -> (P * F * S).
Variable use_impl : P -> option F -> S -> D -> (R * option F * S).   (* transform / predict / score / get_params *)

Inductive call := CFit (d : D) | CUse (d : D) | CSet (p : P).

Definition step (e : est) (c : call) : est * option R :=
  match c with
  | CFit d => let '(p, f, s) := fit_impl (params e) (fitted e) (shared e) d in
              ({| params := p; fitted := Some f; shared := s |}, None)
  | CUse d => let '(r, f, s) := use_impl (params e) (fitted e) (shared e) d in
              ({| params := params e; fitted := f; shared := s |}, Some r)
  | CSet p => ({| params := p; fitted := fitted e; shared := shared e |}, None)
  end.

Definition run (e : est) (h : list call) : est := fold_left (fun e c => fst (step e c)) h e.

(* frame conditions (established per class from the source by tools/gen_effects.py and
   cross-checked by the history runs) *)
Variable fit_pure : P -> D -> F.
Variable use_pure : P -> option F -> D -> R.
Hypothesis fit_frame : forall p f s d, fit_impl p f s d = (p, fit_pure p d, s).
Hypothesis use_frame : forall p f s d, use_impl p f s d = (use_pure p f d, f, s).

Lemma step_shared e c : shared (fst (step e c)) = shared e.
Proof.
  destruct c as [d|d|p]; cbn [step].
  - rewrite fit_frame. reflexivity.
  - rewrite use_frame. reflexivity.
  - reflexivity.
Qed.

Lemma run_shared e h : shared (run e h) = shared e.
Proof.
  revert e. induction h as [|c h IH]; intros e; [reflexivity|].
  cbn [run fold_left]. fold (run (fst (step e c)) h). rewrite IH. apply step_shared.
Qed.

(* the parameters after a history are the last ones set (fit and use never touch them) *)
Fixpoint last_set (p : P) (h : list call) : P :=
  match h with
  | [] => p
  | CSet p' :: h' => last_set p' h'
  | _ :: h' => last_set p h'
  end.

Lemma run_params e h : params (run e h) = last_set (params e) h.
Proof.
  revert e. induction h as [|c h IH]; intros e; [reflexivity|].
  cbn [run fold_left]. fold (run (fst (step e c)) h). rewrite IH.
  destruct c as [d|d|p]; cbn [step last_set].
  - rewrite fit_frame. reflexivity.
  - rewrite use_frame. reflexivity.
  - reflexivity.
Qed.

(* MAIN: fit after any history = fit of a fresh estimator with the same parameters *)
Theorem fit_history_independent (e : est) (h : list call) (d : D) (s0 : S) :
  let e' := fst (step (run e h) (CFit d)) in
  let fresh := fst (step {| params := last_set (params e) h; fitted := None; shared := s0 |} (CFit d)) in
  fitted e' = fitted fresh /\ params e' = params fresh /\ shared e' = shared e.
Proof.
  cbn zeta. cbn [step]. rewrite !fit_frame. cbn [fitted params shared fst].
  rewrite run_params, run_shared. repeat split.
Qed.

(* read-only calls leave the estimator untouched ... *)
Theorem use_leaves_state (e : est) (d : D) : fst (step e (CUse d)) = e.
Proof. cbn [step]. rewrite use_frame. destruct e; reflexivity. Qed.

(* ... so ANY interleaving of read-only calls (from any number of threads) returns, for
   each call, the answer it would get alone *)
Theorem concurrent_uses_sequential (e : est) (ds : list D) :
  let results := snd (fold_left (fun acc d => let '(e', rs) := acc in
                                              (fst (step e' (CUse d)), rs ++ [snd (step e' (CUse d))]))
                                ds (e, [])) in
  results = map (fun d => snd (step e (CUse d))) ds.
Proof.
  cbn zeta.
  assert (H : forall rs, fold_left (fun acc d => let '(e', rs) := acc in
                                     (fst (step e' (CUse d)), rs ++ [snd (step e' (CUse d))])) ds (e, rs)
                         = (e, rs ++ map (fun d => snd (step e (CUse d))) ds)).
  { induction ds as [|d ds IH]; intros rs; cbn [fold_left map]; [rewrite app_nil_r; reflexivity|].
    rewrite use_leaves_state, IH, <- app_assoc. reflexivity. }
  rewrite H. reflexivity.
Qed.
End Lifecycle.

(* get_params / set_params / clone over a tree of named steps (model of _BaseComposition) *)
Section Params.
Variable V : Type.
Definition pmap := list (nat * V).          (* parameter name -> value, names unique *)
Fixpoint set1 (k : nat) (v : V) (m : pmap) : pmap :=
  match m with
  | [] => []
  | (k', v') :: t => if Nat.eqb k k' then (k, v) :: t else (k', v') :: set1 k v t
  end.
Definition set_many (kv : pmap) (m : pmap) : pmap := fold_left (fun m kv => set1 (fst kv) (snd kv) m) kv m.

Lemma set1_same k v m : set1 k v ((k, v) :: m) = (k, v) :: m.
Proof. cbn [set1]. rewrite Nat.eqb_refl. reflexivity. Qed.

Lemma set1_noop m : forall k v, In (k, v) m -> NoDup (map fst m) -> set1 k v m = m.
Proof.
  induction m as [|[k' v'] m IH]; intros k v Hin Hnd; [reflexivity|].
  cbn [set1]. inversion Hnd as [|? ? Hni Hnd']; subst. destruct Hin as [Heq|Hin].
  - inversion Heq; subst. rewrite Nat.eqb_refl. reflexivity.
  - destruct (Nat.eqb_spec k k') as [->|Hne].
    + exfalso. apply Hni. apply in_map_iff. exists (k', v). split; [reflexivity|exact Hin].
    + f_equal. apply IH; assumption.
Qed.

(* set_params applied to the result of get_params is the identity; names and order of steps are kept *)
Theorem set_get_roundtrip (m : pmap) : NoDup (map fst m) -> set_many m m = m.
Proof.
  intros Hnd. unfold set_many.
  assert (H : forall l, (forall kv, In kv l -> In kv m) -> fold_left (fun m kv => set1 (fst kv) (snd kv) m) l m = m).
  { induction l as [|[k v] l IH]; intros Hl; cbn [fold_left fst snd]; [reflexivity|].
    rewrite set1_noop; [apply IH; intros kv Hkv; apply Hl; right; exact Hkv| |exact Hnd].
    apply Hl. left; reflexivity. }
  apply H. auto.
Qed.

Lemma set1_keys k v m : map fst (set1 k v m) = map fst m.
Proof.
  induction m as [|[k' v'] m IH]; [reflexivity|]. cbn [set1].
  destruct (Nat.eqb_spec k k') as [->|Hne]; cbn [map fst]; [reflexivity|rewrite IH; reflexivity].
Qed.
End Params.
