(* C18 bridge: the definitions REGENERATED from pykoop/lifting_functions.py and
   pykoop/centers.py (Gen/Numeric.v) against the hand-written specification:
   the seven named radial functions, the radius, the stacking of RbfLiftingFn
   (also as an instance of the stage model of Stage.v), _feature_range, the uniform
   centre formula and the grid arrangement. *)
From Coq Require Import Reals Lra Lia String List.
From PK.AlgR Require Import Rff Range NumLib.
From PK Require Import Stage GridModel SeedModel.
From PK.Gen Require Import Numeric.
Import ListNotations.
Local Open Scope R_scope.

(* ---------- the named radial functions, as documented *)
Definition rbf_exponential (r : R) := exp (- r).
Definition rbf_gaussian (r : R) := exp (- r ^ 2).
Definition rbf_multiquadric (r : R) := sqrt (1 + r ^ 2).
Definition rbf_inverse_quadratic (r : R) := / (1 + r ^ 2).
Definition rbf_inverse_multiquadric (r : R) := / sqrt (1 + r ^ 2).
Definition rbf_thin_plate (r : R) := r ^ 2 * ln r.
Definition rbf_bump (r : R) := if Rlt_dec r 1 then exp (- / (1 - r ^ 2)) else 0.

Lemma gen_rbf_exponential_spec : forall r, gen_rbf_exponential r = rbf_exponential r.
Proof. reflexivity. Qed.
Lemma gen_rbf_gaussian_spec : forall r, gen_rbf_gaussian r = rbf_gaussian r.
Proof. reflexivity. Qed.
Lemma gen_rbf_multiquadric_spec : forall r, gen_rbf_multiquadric r = rbf_multiquadric r.
Proof. reflexivity. Qed.
Lemma gen_rbf_inverse_quadratic_spec : forall r, gen_rbf_inverse_quadratic r = rbf_inverse_quadratic r.
Proof. intros. unfold gen_rbf_inverse_quadratic, rbf_inverse_quadratic. unfold Rdiv. ring. Qed.
Lemma gen_rbf_inverse_multiquadric_spec : forall r,
  gen_rbf_inverse_multiquadric r = rbf_inverse_multiquadric r.
Proof. intros. unfold gen_rbf_inverse_multiquadric, rbf_inverse_multiquadric. unfold Rdiv. ring. Qed.
Lemma gen_rbf_thin_plate_spec : forall r, gen_rbf_thin_plate r = rbf_thin_plate r.
Proof. reflexivity. Qed.
Lemma gen_rbf_bump_spec : forall r, gen_rbf_bump_function r = rbf_bump r.
Proof.
  intros. unfold gen_rbf_bump_function, gen_rbf_bump_function_bump, rbf_bump.
  destruct (Rlt_dec r 1); [|reflexivity]. f_equal. unfold Rdiv. ring.
Qed.

Lemma gen_rbf_table :
  map (fun t => fst (fst t)) gen_rbf_names = seq 0 7 /\ List.length gen_rbf_names = 7%nat.
Proof. split; reflexivity. Qed.

(* default offsets: zero except thin_plate (ln is not defined at radius 0) *)
Lemma gen_rbf_offsets :
  gen_rbf_offset_exponential = 0 /\ gen_rbf_offset_gaussian = 0 /\ gen_rbf_offset_multiquadric = 0 /\
  gen_rbf_offset_inverse_quadratic = 0 /\ gen_rbf_offset_inverse_multiquadric = 0 /\
  gen_rbf_offset_bump_function = 0 /\ 0 < gen_rbf_offset_thin_plate.
Proof. repeat split; try reflexivity. unfold gen_rbf_offset_thin_plate. lra. Qed.

(* an explicit offset (zero included) is used as given; None falls back on the table for a
   named function and on zero for a callable; a named function is looked up, a callable used *)
Lemma gen_rbf_resolution : forall (o l : R) (b : bool) (f g : R -> R),
  gen_rbf_resolve_offset (Some o) b l = o /\
  gen_rbf_resolve_offset None true l = l /\
  gen_rbf_resolve_offset None false l = 0 /\
  gen_rbf_resolve_rbf true f g = f /\ gen_rbf_resolve_rbf false f g = g.
Proof. intros. repeat split. Qed.

(* sanity of the named functions on their domain r >= 0 *)
Lemma sq_nonneg : forall r, 0 <= r ^ 2.
Proof. intros; simpl; nra. Qed.
Lemma rbf_gaussian_range : forall r, 0 < rbf_gaussian r <= 1.
Proof.
  intros r. unfold rbf_gaussian. split; [apply exp_pos|].
  rewrite <- exp_0. pose proof (sq_nonneg r).
  destruct (Req_dec (r ^ 2) 0) as [E|E]; [rewrite E, Ropp_0; lra|].
  left. apply exp_increasing. lra.
Qed.
Lemma rbf_gaussian_at_zero : rbf_gaussian 0 = 1.
Proof. unfold rbf_gaussian. replace (- 0 ^ 2) with 0 by (simpl; ring). apply exp_0. Qed.
Lemma rbf_exponential_range : forall r, 0 <= r -> 0 < rbf_exponential r <= 1.
Proof.
  intros r Hr. unfold rbf_exponential. split; [apply exp_pos|]. rewrite <- exp_0.
  destruct Hr as [Hr|Hr]; [left; apply exp_increasing; lra | subst; rewrite Ropp_0; lra].
Qed.
Lemma rbf_inverse_quadratic_range : forall r, 0 < rbf_inverse_quadratic r <= 1.
Proof.
  intros r. unfold rbf_inverse_quadratic. pose proof (sq_nonneg r) as H.
  split; [apply Rinv_0_lt_compat; lra|].
  replace 1 with (/ 1) at 2 by apply Rinv_1. apply Rinv_le_contravar; lra.
Qed.
Lemma rbf_multiquadric_ge1 : forall r, 1 <= rbf_multiquadric r.
Proof.
  intros r. unfold rbf_multiquadric. rewrite <- sqrt_1 at 1. apply sqrt_le_1_alt.
  pose proof (sq_nonneg r). lra.
Qed.
Lemma rbf_bump_support : forall r, 1 <= r -> rbf_bump r = 0.
Proof. intros r Hr. unfold rbf_bump. destruct (Rlt_dec r 1); [lra|reflexivity]. Qed.
Lemma rbf_bump_pos : forall r, r < 1 -> 0 < rbf_bump r.
Proof. intros r Hr. unfold rbf_bump. destruct (Rlt_dec r 1); [apply exp_pos|lra]. Qed.

(* ---------- RbfLiftingFn._transform_one_ep on one row *)
Definition rbf_radius (shape offset : R) (x c : list R) : R := shape * vnorm (vsub x c) + offset.

Theorem gen_rbf_lift_layout : forall ns shape offset centers rbf X,
  gen_rbf_lift_row ns shape offset centers rbf X
  = (X ++ map (fun c => rbf (rbf_radius shape offset X c)) centers)%list.
Proof.
  intros. unfold gen_rbf_lift_row, bdiff, vadds, vscale, rbf_radius.
  rewrite app_assoc, firstn_skipn, !map_map. reflexivity.
Qed.

Lemma rbf_radius_ge_offset : forall shape offset x c, 0 <= shape -> offset <= rbf_radius shape offset x c.
Proof.
  intros. unfold rbf_radius. pose proof (vnorm_nonneg (vsub x c)). nra.
Qed.
Lemma rbf_radius_at_center : forall shape offset x, rbf_radius shape offset x x = offset.
Proof. intros. unfold rbf_radius. rewrite vnorm_vsub_self. ring. Qed.
Lemma rbf_radius_sym : forall shape offset x c, rbf_radius shape offset x c = rbf_radius shape offset c x.
Proof. intros. unfold rbf_radius. now rewrite vnorm_vsub_sym. Qed.
(* thin_plate with its default offset is evaluated at a strictly positive radius *)
Lemma thin_plate_radius_pos : forall shape x c, 0 <= shape ->
  0 < rbf_radius shape gen_rbf_offset_thin_plate x c.
Proof.
  intros. pose proof (rbf_radius_ge_offset shape gen_rbf_offset_thin_plate x c H).
  unfold gen_rbf_offset_thin_plate in *. lra.
Qed.

(* the stage model of Stage.v (leaf LRbf, opaque radial operation) instantiated with the
   generated radius and a radial function IS the generated row transform *)
Definition rops (radial : nat -> list R -> list R -> R) (kern : nat -> nat -> list R -> R) : ops R :=
  {| op_t0 := 0; op_t1 := 1; op_add := Rplus; op_mul := Rmult;
     op_cos := cos; op_sin := sin; op_atan2 := fun _ _ => 0;
     op_sk_fwd := fun _ _ x => x; op_sk_inv := fun _ _ x => x;
     op_radial := radial; op_kern := kern; op_unwrap := fun l => l;
     op_inj := fun _ => 0; op_lab := fun _ => 0%N |}.

Theorem stage_rbf_row_is_generated : forall id ns nu shape offset centers rbf kern X,
  leaf_row (rops (fun _ x c => rbf (rbf_radius shape offset x c)) kern) (LRbf id centers) (ns, nu) X
  = gen_rbf_lift_row ns shape offset centers rbf X.
Proof. intros. rewrite gen_rbf_lift_layout. reflexivity. Qed.

Theorem stage_kernel_row_is_generated : forall id ns nu radial (kt : list R -> list R) nf X,
  List.length (kt X) = nf ->
  leaf_row (rops radial (fun _ j x => nth j (kt x) 0)) (@LKernel R id nf) (ns, nu) X
  = gen_kernel_lift_row ns kt X.
Proof.
  intros id ns nu radial kt nf X H. unfold gen_kernel_lift_row.
  rewrite app_assoc, firstn_skipn. cbn [leaf_row op_kern rops]. f_equal.
  subst nf. generalize (kt X). intros v.
  apply nth_ext with (d := 0) (d' := 0); [now rewrite map_length, seq_length|].
  intros k Hk. rewrite map_length, seq_length in Hk.
  rewrite (nth_indep _ 0 (nth 0 v 0)) by (now rewrite map_length, seq_length).
  rewrite (map_nth (fun j => nth j v 0) (seq 0 (List.length v)) 0%nat k), seq_nth by assumption.
  reflexivity.
Qed.

(* ---------- _feature_range and the range-based generators *)
Lemma gen_feature_range_spec : forall (sym : bool) x0 l,
  (if sym then gen_feature_range_sym x0 l else gen_feature_range_plain x0 l) = feature_range sym x0 l.
Proof. intros [|] x0 l; reflexivity. Qed.

Theorem gen_uniform_center_in_range : forall (sym : bool) x0 l u, 0 <= u <= 1 ->
  let lo := fst (if sym then gen_feature_range_sym x0 l else gen_feature_range_plain x0 l) in
  let hi := snd (if sym then gen_feature_range_sym x0 l else gen_feature_range_plain x0 l) in
  lo <= gen_uniform_rvs_loc lo hi + u * gen_uniform_rvs_scale lo hi <= hi.
Proof.
  intros sym x0 l u Hu. rewrite gen_feature_range_spec. cbv zeta.
  unfold gen_uniform_rvs_loc, gen_uniform_rvs_scale.
  exact (uniform_center_in_feature_range sym x0 l u Hu).
Qed.

Theorem gen_range_covers_data : forall (sym : bool) x0 l x, In x (x0 :: l) ->
  fst (if sym then gen_feature_range_sym x0 l else gen_feature_range_plain x0 l) <= x
  <= snd (if sym then gen_feature_range_sym x0 l else gen_feature_range_plain x0 l).
Proof. intros. rewrite gen_feature_range_spec. now apply feature_range_covers. Qed.

Theorem gen_grid_point_in_range : forall (sym : bool) x0 l n k, (1 <= n)%nat -> (k <= n - 1)%nat ->
  let lo := fst (if sym then gen_feature_range_sym x0 l else gen_feature_range_plain x0 l) in
  let hi := snd (if sym then gen_feature_range_sym x0 l else gen_feature_range_plain x0 l) in
  lo <= linspace_pt lo hi n k <= hi.
Proof.
  intros sym x0 l n k Hn Hk. rewrite gen_feature_range_spec. cbv zeta.
  apply linspace_in_range_ge1; try assumption. apply feature_range_ordered.
Qed.

(* ---------- sampling / arrangement statements of the fit methods *)
Local Open Scope string_scope.
Lemma gen_uniform_per_feature_same_seed :
  gen_uniform_rvs_dist = "stats.uniform.rvs" /\ gen_uniform_rvs_size = "self.n_centers_" /\
  gen_uniform_rvs_seed = "self.random_state".
Proof. repeat split; reflexivity. Qed.

Lemma gen_grid_arrangement :
  gen_grid_linspaces = "[np.linspace(self.range_min_[i], self.range_max_[i], self.n_points_per_feature) for i in range(self.n_features_in_)]" /\
  gen_grid_centers = "np.array(np.meshgrid(*linspaces)).reshape(self.n_features_in_, -1).T".
Proof. split; reflexivity. Qed.
