(* Kernel-computed witnesses for recorded findings that are statements about the model
   (the implementation-side witnesses are replayed by harness/known.py on every run). *)
From Coq Require Import List ZArith NArith Bool Arith String.
From PK Require Import PyList Episodes Stage Names ZInst.
Import ListNotations.
Local Open Scope nat_scope.

(* ---------- F14 (C19): after BilinearInputLiftingFn, PolynomialLiftingFn(order 2) on 2 states + 1 input
   produces two DIFFERENT columns whose plain-text names are the same string, and a name whose
   conventional reading (power binds tighter than product) is not the value of its column *)
Definition f14_powers : list (list nat) :=
  (* PolynomialFeatures(degree 2) on the 5 columns x0 x1 u0 x0*u0 x1*u0: degree-1 rows then degree-2 rows *)
  [[1;0;0;0;0]; [0;1;0;0;0]; [0;0;1;0;0]; [0;0;0;1;0]; [0;0;0;0;1];
   [2;0;0;0;0]; [1;1;0;0;0]; [1;0;1;0;0]; [1;0;0;1;0]; [1;0;0;0;1];
   [0;2;0;0;0]; [0;1;1;0;0]; [0;1;0;1;0]; [0;1;0;0;1];
   [0;0;2;0;0]; [0;0;1;1;0]; [0;0;1;0;1];
   [0;0;0;2;0]; [0;0;0;1;1];
   [0;0;0;0;2]].
Definition f14_stage : zstage :=
  Pipe (CCons (Leaf (LBilinear Z)) (CCons (Leaf (LPoly Z f14_powers)) (CNil Z))).
Definition f14_names : list (nm Z) := snames f14_stage (2, 1) (default_names Z (2, 1)).
Definition f14_strings : list string := map (render (fun _ => ""%string) false) f14_names.
Definition f14_row : list (list Z) := [[5; 2; 3]]%Z.           (* x0 = 5, x1 = 2, u0 = 3 *)
Definition f14_cm (s : string) : nat :=
  if String.eqb s "x0" then 0 else if String.eqb s "x1" then 1 else 2.
Definition f14_value (j : nat) : Z := ev zops (fun _ => ""%string) f14_row f14_cm (nth j f14_names (NOne Z)) 0.

Definition index_of (s : string) (l : list string) : list nat :=
  map fst (filter (fun p => String.eqb (snd p) s) (List.combine (seq 0 (List.length l)) l)).

(* the string "x1*u0^2" names the column holding (x1*u0)^2 = 36, whereas x1*(u0^2) = 18 *)
Lemma f14_misleading_name :
  exists j, nth j f14_strings ""%string = "x1*u0^2"%string /\ f14_value j = 36%Z /\ (2 * (3 * 3) = 18)%Z.
Proof.
  exists (hd 0 (index_of "x1*u0^2" f14_strings)). vm_compute. repeat split.
Qed.

(* the rendering is not injective on the name trees this pipeline produces: two different
   columns (the bilinear product and the degree-2 monomial) carry the same string *)
(* the rendering is not injective on the name trees this pipeline produces: two different
   columns (the lifted bilinear product and the degree-2 monomial of x0 and u0) carry the same string *)
Lemma f14_duplicate_names :
  exists i j, i <> j /\ nth i f14_strings ""%string = nth j f14_strings ""%string
              /\ nth i f14_names (NOne Z) <> nth j f14_names (NOne Z).
Proof.
  exists 6, 8. repeat split; [discriminate | vm_compute; discriminate].
Qed.
