(* C09 - C11: the alternation loop shared by the five iterative LMI regressors
   (lmi_regressors.py: LmiEdmdSpectralRadiusConstr, LmiDmdcSpectralRadiusConstr,
   LmiEdmdHinfReg, LmiDmdcHinfReg, LmiEdmdDissipativityConstr - _fit_regressor):

     x := x0 (zeros); p := p0 (identity); log := []
     for k in range(max_iter):
         if polite_stop: break                       (check 2k)
         solve A(p); if not optimal: break           -> x' , objective
         x := x'; log.append(objective)
         if len(log) > 1 and allclose(log[-1], log[-2]): break
         if polite_stop: break                       (check 2k+1)
         solve B(x); if not optimal: break           -> p'
         p := p'
     else: reason = max_iter
     n_iter_ = k + 1

   The solver is an oracle: [solveA k p] / [solveB k x] are the answers to the k-th
   sub-problems (scripted in the correspondence run, CVXOPT in production); [stop i] is
   the value of the module flag polite_stop at the i-th check.  Definitions only. *)
From Coq Require Import List Arith Bool.
Import ListNotations.

Set Implicit Arguments.

Section Altern.
Variables XA XB O : Type.           (* answer of A (U [, gamma]); answer of B (P); objective values *)

Inductive resA := OptA (x : XA) (obj : O) | NotOptA.
Inductive resB := OptB (p : XB) | NotOptB.
Inductive reason := RStopA | RNotOptA | RTol | RStopB | RNotOptB | RMaxIter.

Variable solveA : nat -> XB -> resA.
Variable solveB : nat -> XA -> resB.
Variable stop : nat -> bool.
Variable close : O -> O -> bool.    (* np.allclose(curr, prev, atol, rtol) *)

(* o_calls: the arguments the sub-problems were built from, in call order (inl p = A(p), inr x = B(x)) *)
Record outcome := { o_x : XA; o_p : XB; o_log : list O; o_niter : nat; o_reason : reason;
                    o_calls : list (XB + XA) }.

Definition tol_reached (log : list O) (obj : O) : bool :=
  match rev log with
  | [] => false
  | prev :: _ => close obj prev
  end.

Fixpoint loop_tr (fuel k : nat) (x : XA) (p : XB) (log : list O) (tr : list (XB + XA)) : outcome :=
  match fuel with
  | 0 => {| o_x := x; o_p := p; o_log := log; o_niter := k; o_reason := RMaxIter; o_calls := tr |}
  | S fuel' =>
      if stop (2 * k) then {| o_x := x; o_p := p; o_log := log; o_niter := k + 1; o_reason := RStopA; o_calls := tr |}
      else match solveA k p with
      | NotOptA => {| o_x := x; o_p := p; o_log := log; o_niter := k + 1; o_reason := RNotOptA; o_calls := tr ++ [inl p] |}
      | OptA x' obj =>
          let log' := log ++ [obj] in
          if tol_reached log obj
          then {| o_x := x'; o_p := p; o_log := log'; o_niter := k + 1; o_reason := RTol; o_calls := tr ++ [inl p] |}
          else if stop (2 * k + 1)
          then {| o_x := x'; o_p := p; o_log := log'; o_niter := k + 1; o_reason := RStopB; o_calls := tr ++ [inl p] |}
          else match solveB k x' with
          | NotOptB => {| o_x := x'; o_p := p; o_log := log'; o_niter := k + 1; o_reason := RNotOptB; o_calls := tr ++ [inl p; inr x'] |}
          | OptB p' => loop_tr fuel' (k + 1) x' p' log' (tr ++ [inl p; inr x'])
          end
      end
  end.

Definition loop (fuel k : nat) (x : XA) (p : XB) (log : list O) : outcome := loop_tr fuel k x p log [].
Definition fit (max_iter : nat) (x0 : XA) (p0 : XB) : outcome := loop max_iter 0 x0 p0 [].

End Altern.
