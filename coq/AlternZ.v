(* Executable instance of the alternation loop for the scripted-solver correspondence:
   answers are tags (nat), objectives integers, allclose with rtol = 0 and an integer atol. *)
From Coq Require Import List ZArith Arith Bool.
From PK Require Import PyList Altern.
Import ListNotations.

Definition zsolveA (ans : list (option (nat * Z))) (k : nat) (_ : nat) : resA nat Z :=
  match nth k ans None with Some (t, o) => OptA t o | None => NotOptA nat Z end.
Definition zsolveB (ans : list (option nat)) (k : nat) (_ : nat) : resB nat :=
  match nth k ans None with Some t => OptB t | None => NotOptB nat end.
Definition zstop (stop_at : option nat) (i : nat) : bool :=
  match stop_at with Some s => Nat.leb s i | None => false end.
Definition zclose (atol : Z) (c p : Z) : bool := Z.leb (Z.abs (c - p)) atol.

Definition zfit (ansA : list (option (nat * Z))) (ansB : list (option nat)) (stop_at : option nat)
  (atol : Z) (max_iter : nat) : outcome nat nat Z :=
  fit (zsolveA ansA) (zsolveB ansB) (zstop stop_at) (zclose atol) max_iter 0 0.

(* reason classes as the implementation words them: both polite stops read the same *)
Definition reason_code (r : reason) : nat :=
  match r with RStopA | RStopB => 0 | RNotOptA => 1 | RTol => 2 | RNotOptB => 3 | RMaxIter => 4 end.

Definition call_eqb (a b : nat + nat) : bool :=
  match a, b with
  | inl x, inl y | inr x, inr y => Nat.eqb x y
  | _, _ => false
  end.

Definition outcome_matches (r : outcome nat nat Z) (x p : nat) (log : list Z) (niter reason : nat)
  (calls : list (nat + nat)) : bool :=
  Nat.eqb (o_x r) x && Nat.eqb (o_p r) p && list_eqb Z.eqb (o_log r) log
  && Nat.eqb (o_niter r) niter && Nat.eqb (reason_code (o_reason r)) reason
  && list_eqb call_eqb (o_calls r) calls.
