(* Recorded finding F16 (C06): Dmd / Dmdc with mode_type='exact' do not return A when A is singular.
   The code reconstructs the state-transition block as the least-squares solution V diag(lambda) V^+ of
   X V = V diag(lambda) from the modes V; the EXACT modes are A times the eigenvectors, so the mode of a
   zero eigenvalue is the zero vector and the reconstruction only returns A when ker A is orthogonal to
   the other modes.  Kernel-computed witness over Q (exact rational arithmetic, QMat.v). *)
From Coq Require Import List QArith ZArith Bool.
From PK Require Import PyList QMat.
Import ListNotations.
Open Scope Q_scope.

Definition f16_A : qmat := [[0; 1]; [0; 1]].
Definition f16_W : qmat := [[1; 1]; [0; 1]].          (* eigenvectors (1,0) for 0 and (1,1) for 1, as columns *)
Definition f16_Winv : qmat := [[1; -1]; [0; 1]].
Definition f16_L : qmat := [[0; 0]; [0; 1]].
Definition f16_V : qmat := qmul f16_A f16_W.           (* exact modes *)
Definition f16_Vp : qmat := [[0; 0]; [1 # 2; 1 # 2]]. (* Moore-Penrose inverse of V *)

Definition penrose (V Vp : qmat) : Prop :=
  qmul (qmul V Vp) V = V /\ qmul (qmul Vp V) Vp = Vp
  /\ qtranspose (qmul V Vp) = qmul V Vp /\ qtranspose (qmul Vp V) = qmul Vp V.

Lemma f16_exact_modes_singular :
  qmul f16_A f16_W = qmul f16_W f16_L            (* (lambda, W) are the eigenpairs of A *)
  /\ qmul f16_W f16_Winv = qeye 2 1               (* W is invertible: A is diagonalisable *)
  /\ qmul (qmul f16_W f16_L) f16_Winv = f16_A     (* the PROJECTED-mode reconstruction W L W^-1 returns A *)
  /\ penrose f16_V f16_Vp                         (* Vp is the pseudo-inverse lstsq uses *)
  /\ qmul (qmul f16_V f16_L) f16_Vp = [[1 # 2; 1 # 2]; [1 # 2; 1 # 2]]   (* the EXACT-mode reconstruction ... *)
  /\ qmul (qmul f16_V f16_L) f16_Vp <> f16_A.                             (* ... is not A *)
Proof. unfold penrose. vm_compute. repeat split; discriminate. Qed.
