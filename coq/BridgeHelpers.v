(* Bridge for the lift / retract helper family (C16): the six helpers of KoopmanLiftingFn REGENERATED from the source
   (Gen/HelpersGen.v, raw arrays with the label in column 0) are the helpers of the model (Helpers.v).
   split_episodes / combine_episodes on raw arrays are the model's split / combine composed with the label-column
   conversion (of_raw / to_raw); BridgeEpisodes.v ties those to the source. *)
From Coq Require Import List ZArith NArith Arith Bool Lia.
From PK Require Import PyList SliceLib Episodes Stage Helpers BridgeEpisodes BridgeStages.
From PK.Gen Require Import HelpersGen.
Import ListNotations.

Section Bridge.
Variable T : Type.
Variable O : ops T.
Notation t0 := (op_t0 O).
Notation raw := (list (list T)).

Definition split_raw (R : raw) (ep : bool) : list (N * raw) := split ep (of_raw O ep R).
Definition combine_raw (eps : list (N * raw)) (ep : bool) : raw := to_raw O ep (combine ep eps).

Lemma hstack2 : forall (A B : raw), hstack_list [A; B] = hstack A B.
Proof. reflexivity. Qed.

Lemma pad_right : forall (R : raw) w, hstack_list [R; zeros_like_rows t0 R w] = map (fun r => r ++ repeat t0 w) R.
Proof.
  intros R w. rewrite hstack2. unfold zeros_like_rows, hstack.
  induction R as [|r R IH]; cbn [map map2]; [reflexivity|now rewrite IH].
Qed.

Lemma pad_left : forall (R : raw) w, hstack_list [zeros_like_rows t0 R w; R] = map (fun r => repeat t0 w ++ r) R.
Proof.
  intros R w. rewrite hstack2. unfold zeros_like_rows, hstack.
  induction R as [|r R IH]; cbn [map map2]; [reflexivity|now rewrite IH].
Qed.

Lemma cols_from1 : forall (R : raw), slice_cols (Some 1%Z) None R = map (@tl T) R.
Proof.
  intros R. change (Some 1%Z) with (Some (Z.of_nat 1)). rewrite cols_from. apply map_ext. intros r. apply tl_skipn1.
Qed.

Theorem gen_with_flag_model : forall (fit : bool) (g : raw -> raw) (call : option bool) (R : raw),
  gen_lift T t0 fit g split_raw combine_raw call R
  = match call with
    | None => g R
    | Some c => if Bool.eqb c fit then g R
                else if fit then map (@tl T) (g (map (fun r => t0 :: r) R))
                else to_raw O true (map_episodes true g (of_raw O true R))
    end.
Proof.
  intros fit g call R. unfold gen_lift. destruct call as [c|]; [|reflexivity].
  destruct (Bool.eqb c fit) eqn:Hc; [reflexivity|]. destruct fit.
  - cbn zeta. rewrite cols_from1. f_equal. f_equal. change (Z.to_nat 1) with 1. rewrite pad_left. reflexivity.
  - destruct c; [|discriminate]. cbn zeta. unfold split_raw, combine_raw, map_episodes. rewrite app_nil_l. reflexivity.
Qed.

Theorem gen_lift_model : forall (f : fitted T) (call : option bool) (R : raw),
  gen_lift T t0 (f_ep f) (transform_raw O f) split_raw combine_raw call R = lift O f call R.
Proof. intros f call R. rewrite gen_with_flag_model. reflexivity. Qed.

(* gen_retract is the same function as gen_lift with the inverse in place of the transform *)
Theorem gen_retract_model : forall (f : fitted T) (call : option bool) (R : raw),
  gen_retract T t0 (f_ep f) (inverse_raw O f) split_raw combine_raw call R = retract O f call R.
Proof.
  intros f call R. change (gen_retract T t0 (f_ep f) (inverse_raw O f) split_raw combine_raw call R)
    with (gen_lift T t0 (f_ep f) (inverse_raw O f) split_raw combine_raw call R).
  rewrite gen_with_flag_model. reflexivity.
Qed.

Lemma cols_to_flag : forall (n : nat) (c : bool) (R : raw),
  slice_cols None (Some (Z.of_nat n + (if c then 1 else 0))%Z) R = map (firstn (n + b2n c)) R.
Proof.
  intros n c R. replace (Z.of_nat n + (if c then 1 else 0))%Z with (Z.of_nat (n + b2n c)) by (destruct c; cbn [b2n]; lia).
  apply cols_to.
Qed.

Theorem gen_lift_state_model : forall (f : fitted T) (call : option bool) (R : raw),
  gen_lift_state T t0 (f_ep f) (snd (f_dims f)) (lift O f) (fst (f_out f)) call R = lift_state O f call R.
Proof.
  intros f call R. unfold gen_lift_state, lift_state, eff. cbn zeta.
  rewrite Nat2Z.id, pad_right, cols_to_flag. reflexivity.
Qed.

Theorem gen_retract_state_model : forall (f : fitted T) (call : option bool) (R : raw),
  gen_retract_state T t0 (f_ep f) (snd (f_out f)) (retract O f) (fst (f_dims f)) call R = retract_state O f call R.
Proof.
  intros f call R. unfold gen_retract_state, retract_state, eff. cbn zeta.
  rewrite Nat2Z.id, pad_right, cols_to_flag. reflexivity.
Qed.

(* X[:, [0]] raises on a row without cells; with an episode feature every row starts with its label *)
Definition nonempty_rows (R : raw) : Prop := forall r, In r R -> r <> [].

Lemma first_col : forall (R : raw) (g : list T -> list T), nonempty_rows R ->
  hstack_list [take_cols t0 [0%nat] R; map g R] = map (fun r => firstn 1 r ++ g r) R.
Proof.
  intros R g H. rewrite hstack2. unfold take_cols. rewrite hstack_map. apply map_ext_in. intros r Hr.
  destruct r as [|x r]; [exfalso; exact (H [] Hr eq_refl)|reflexivity].
Qed.

Lemma cols_from_succ : forall (n : nat) (R : raw), slice_cols (Some (Z.of_nat n + 1)%Z) None R = map (skipn (n + 1)) R.
Proof. intros n R. replace (Z.of_nat n + 1)%Z with (Z.of_nat (n + 1)) by lia. apply cols_from. Qed.

Theorem gen_lift_input_model : forall (f : fitted T) (call : option bool) (R : raw),
  (eff f call = true -> nonempty_rows (lift O f (Some true) R)) ->
  gen_lift_input T t0 (f_ep f) (lift O f) (fst (f_out f)) call R = lift_input O f call R.
Proof.
  intros f call R Hne. unfold gen_lift_input, lift_input. cbn zeta. fold (eff f call).
  destruct (eff f call) eqn:Hc.
  - rewrite cols_from_succ. apply first_col. now apply Hne.
  - apply cols_from.
Qed.

Theorem gen_retract_input_model : forall (f : fitted T) (call : option bool) (R : raw),
  (eff f call = true -> nonempty_rows R /\
     nonempty_rows (retract O f (Some true) (map (fun r => firstn 1 r ++ repeat t0 (fst (f_out f)) ++ skipn 1 r) R))) ->
  gen_retract_input T t0 (f_ep f) (fst (f_out f)) (retract O f) (fst (f_dims f)) call R = retract_input O f call R.
Proof.
  intros f call R Hne. unfold gen_retract_input, retract_input. cbn zeta. fold (eff f call).
  destruct (eff f call) eqn:Hc.
  - destruct (Hne eq_refl) as [H1 H2].
    assert (Hpad : hstack_list [take_cols t0 [0%nat] R; zeros_like_rows t0 R (Z.to_nat (Z.of_nat (fst (f_out f))));
                               slice_cols (Some 1%Z) None R]
                   = map (fun r => firstn 1 r ++ repeat t0 (fst (f_out f)) ++ skipn 1 r) R).
    { rewrite Nat2Z.id. unfold hstack_list. cbn [fold_left]. unfold take_cols, zeros_like_rows.
      change (Some 1%Z) with (Some (Z.of_nat 1)). rewrite cols_from, hstack_map, hstack_map.
      apply map_ext_in. intros r Hr. destruct r as [|x r]; [exfalso; exact (H1 [] Hr eq_refl)|].
      now rewrite <- app_assoc. }
    rewrite Hpad, cols_from_succ. apply first_col. exact H2.
  - rewrite Nat2Z.id, pad_left. apply cols_from.
Qed.

End Bridge.
