(* C06 bridge: the linear system solved by Edmd._fit_regressor, as REGENERATED from the source
   (Gen/Regressors.v), is the normal equations of the documented cost; hence whatever
   least-squares routine returns an exact solution of it returns the global minimiser. *)
From mathcomp Require Import all_ssreflect all_algebra.
From PK.Alg Require Import Edmd.
From PK.Gen Require Import Regressors.
Set Implicit Arguments.
Unset Strict Implicit.
Unset Printing Implicit Defensive.
Import GRing.Theory Num.Theory.
Local Open Scope ring_scope.

Section Bridge.
Variable R : fieldType.
Variables p q r : nat.
Variable X_unshifted : 'M[R]_(q, p).
Variable X_shifted : 'M[R]_(q, r).
Variable alpha : R.
Let Psi := X_unshifted^T.
Let Thp := X_shifted^T.

(* coef (p x r) solves the generated system  <->  U = coef^T satisfies the normal equations *)
Lemma gen_edmd_system_is_normal_eq (coef : 'M[R]_(p, r)) : (q%:R : R) != 0 ->
  (gen_edmd_lstsq_lhs X_unshifted alpha *m coef = gen_edmd_lstsq_rhs X_unshifted X_shifted)
  <-> normal_eq Psi Thp alpha coef^T.
Proof.
move=> q0. rewrite /gen_edmd_lstsq_lhs /gen_edmd_lstsq_rhs /gen_edmd_H_reg /gen_edmd_H_unreg /gen_edmd_G.
rewrite /gen_edmd_Psi /gen_edmd_Theta_p -/Psi -/Thp.
have -> : alpha *: (1%:M : 'M[R]_p) = alpha%:M by rewrite scalemx1.
set H := (_ + _ : 'M[R]_p). set G := (_ *: _ : 'M[R]_(r, p)).
have E : (H^T *m coef = G^T) <-> (coef^T *m H = G).
  split=> [Hc|Hc].
  - by apply: trmx_inj; rewrite trmx_mul trmxK.
  - by rewrite -[coef]trmxK -trmx_mul Hc.
rewrite E /H /G. exact: (C06_scaling Psi Thp alpha coef^T q0).
Qed.

End Bridge.

Section Optimal.
Variable R : realFieldType.
Variables p q r : nat.
Variable X_unshifted : 'M[R]_(q, p).
Variable X_shifted : 'M[R]_(q, r).
Variable alpha : R.

(* with at least one snapshot pair and alpha >= 0: an exact solution of the generated system
   minimises the documented cost  ||Theta_+ - U Psi||_F^2 + alpha ||U||_F^2  over ALL matrices *)
Theorem gen_edmd_optimal (coef : 'M[R]_(p, r)) : (0 < q)%N -> 0 <= alpha ->
  gen_edmd_lstsq_lhs X_unshifted alpha *m coef = gen_edmd_lstsq_rhs X_unshifted X_shifted ->
  forall V, cost X_unshifted^T X_shifted^T alpha coef^T <= cost X_unshifted^T X_shifted^T alpha V.
Proof.
move=> q0 a0 H V. apply: C06_optimal => //.
apply/(gen_edmd_system_is_normal_eq X_unshifted X_shifted alpha coef) => //.
by rewrite pnatr_eq0 -lt0n.
Qed.

End Optimal.
