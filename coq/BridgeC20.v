(* Bridge for C20: the facts regenerated from /repo's current source on this run
   (Gen/Config.v, Gen/Guards.v) are the ones the theorems are proved for. *)
From Coq Require Import List Bool.
From PK Require Import ConfigModel ConfigFacts.
From PK.Gen Require Import Config Guards.

Lemma config_source_recognised : cfg_recognised = true.
Proof. reflexivity. Qed.

Lemma config_source_has_good_shape : cfg_flags = good_shape.
Proof. reflexivity. Qed.

Lemma every_guard_is_validation_only : all_guards_ok = true.
Proof. reflexivity. Qed.
