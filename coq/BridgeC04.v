(* C04 bridge: the formulas obtained by SYMBOLIC EXECUTION of the working tree's
   _fit_one_ep / n_samples_in methods and base-class fit statements (Gen/Dims.v,
   tools/gen_dims.py) are the bookkeeping of the stage model (Stage.leaf_dims,
   leaf_samples_in, min_samples), about which C04's theorems are proved. *)
From Coq Require Import Arith Lia List Bool.
From PK Require Import Stage.
From PK.Gen Require Import Dims.
Import ListNotations.

Section Bridge.
Variable T : Type.

Lemma gen_delay_model : forall dx du ns nu,
  let g := gen_delay_fit ns nu dx du in
  leaf_dims (@LDelay T dx du) (ns, nu) = (fst (fst g), snd (fst g)) /\
  leaf_samples_in (@LDelay T dx du) 1 = snd g.
Proof. intros. cbn. split; [f_equal; lia | lia]. Qed.

Lemma gen_delay_samples_in_model : forall dx du n,
  leaf_samples_in (@LDelay T dx du) n = gen_delay_samples_in dx du n.
Proof. intros. cbn. unfold gen_delay_samples_in. lia. Qed.

Lemma gen_bilinear_model : forall ns nu, leaf_dims (@LBilinear T) (ns, nu) = gen_bilinear_fit ns nu.
Proof. intros. cbn. unfold gen_bilinear_fit. f_equal. lia. Qed.

Lemma gen_const_model : forall ns nu, leaf_dims (@LConst T) (ns, nu) = gen_const_fit ns nu.
Proof. intros. cbn. unfold gen_const_fit. f_equal. lia. Qed.

Lemma gen_rbf_model : forall id (centers : list (list T)) ns nu,
  leaf_dims (LRbf id centers) (ns, nu) = gen_rbf_fit ns nu (length centers).
Proof. intros. cbn. unfold gen_rbf_fit. destruct (Nat.eqb nu 0); f_equal; lia. Qed.

Lemma gen_kernel_model : forall id nf ns nu,
  leaf_dims (@LKernel T id nf) (ns, nu) = gen_kernel_fit ns nu nf.
Proof. intros. cbn. unfold gen_kernel_fit. destruct (Nat.eqb nu 0); f_equal; lia. Qed.

Lemma gen_sk_model : forall id ns nu, leaf_dims (@LSk T id) (ns, nu) = gen_sk_fit ns nu.
Proof. reflexivity. Qed.

(* every episode-independent kind needs as many input samples as output samples *)
Lemma gen_indep_samples_in_model : forall (l : leaf T) n,
  (forall dx du, l <> @LDelay T dx du) -> leaf_samples_in l n = gen_indep_samples_in n.
Proof. intros l n H. destruct l; try reflexivity. now contradiction (H dx du). Qed.

End Bridge.

(* the attributes the two base-class fits derive from the result of _fit_one_ep *)
Lemma gen_fit_attrs : forall nx nu nk (ep : bool),
  gen_indep_fit_attrs nx nu ep = (nx, nu, (if ep then 1 else 0) + nx + nu, 1) /\
  gen_dep_fit_attrs nx nu nk ep = (nx, nu, (if ep then 1 else 0) + nx + nu, nk).
Proof.
  intros nx nu nk [|]; unfold gen_indep_fit_attrs, gen_dep_fit_attrs; split;
  (apply (f_equal2 pair); [apply (f_equal2 pair); [reflexivity | lia] | reflexivity]).
Qed.
