(* List / matrix lemmas used by the round-trip theorem (C01). *)
From Coq Require Import List ZArith Bool Arith Lia.
From PK Require Import PyList ListFacts.
Import ListNotations.
Set Implicit Arguments.

(* ------------------------------------------------------------ skipn / firstn / seq *)
Lemma skipn_skipn' {A} a b (l : list A) : skipn a (skipn b l) = skipn (b + a) l.
Proof.
  revert l. induction b as [|b IH]; intros l; [reflexivity|].
  destruct l as [|x l]; [rewrite !skipn_nil; reflexivity|]. cbn [skipn Nat.add]. apply IH.
Qed.

Lemma skipn_seq' k a m : skipn k (seq a m) = seq (a + k) (m - k).
Proof.
  revert a m. induction k as [|k IH]; intros a m.
  - rewrite Nat.add_0_r, Nat.sub_0_r. reflexivity.
  - destruct m as [|m]; [reflexivity|]. cbn [seq skipn]. rewrite IH.
    replace (S a + k) with (a + S k) by lia. reflexivity.
Qed.

Lemma firstn_seq' k a m : firstn k (seq a m) = seq a (Nat.min k m).
Proof.
  revert a m. induction k as [|k IH]; intros a m; [reflexivity|].
  destruct m as [|m]; [reflexivity|]. cbn [seq firstn Nat.min]. rewrite IH. reflexivity.
Qed.

Lemma list_as_map_nth {A} (l : list A) d : l = map (fun k => nth k l d) (seq 0 (length l)).
Proof.
  induction l as [|a l IH]; [reflexivity|]. cbn [length seq map nth]. f_equal.
  rewrite <- seq_shift, map_map. exact IH.
Qed.

Lemma nth_firstn' {A} (l : list A) n k d : k < n -> nth k (firstn n l) d = nth k l d.
Proof.
  revert l k. induction n as [|n IH]; intros l k H; [lia|].
  destruct l as [|a l]; [destruct k; reflexivity|]. destruct k as [|k]; [reflexivity|].
  cbn [firstn nth]. apply IH. lia.
Qed.

Lemma firstn_skipn_map_nth {A} (l : list A) d m i :
  m + i <= length l -> firstn m (skipn i l) = map (fun k => nth (k + i) l d) (seq 0 m).
Proof.
  intros H.
  rewrite (list_as_map_nth (firstn m (skipn i l)) d).
  rewrite firstn_length, skipn_length. replace (Nat.min m (length l - i)) with m by lia.
  apply map_ext_in. intros k Hk. apply in_seq in Hk.
  rewrite nth_firstn' by lia. rewrite nth_skipn. f_equal. lia.
Qed.

Lemma skipn_map_seq {A} (f : nat -> A) k a m :
  skipn k (map f (seq a m)) = map f (seq (a + k) (m - k)).
Proof. rewrite skipn_map, skipn_seq'. reflexivity. Qed.

Lemma map_seq_shift {A} (f : nat -> A) a k m :
  map f (seq (a + k) m) = map (fun j => f (k + j)) (seq a m).
Proof.
  revert a. induction m as [|m IH]; intros a; [reflexivity|].
  cbn [seq map]. f_equal; [f_equal; lia|]. apply (IH (S a)).
Qed.

Lemma firstn_skipn_split {A} (l : list A) d m :
  m <= length l -> l = map (fun k => nth k l d) (seq 0 m) ++ skipn m l.
Proof.
  intros H. rewrite <- (firstn_skipn m l) at 1. f_equal.
  rewrite <- (skipn_O l) at 1.
  rewrite (@firstn_skipn_map_nth _ l d m 0) by lia.
  apply map_ext. intros k. rewrite Nat.add_0_r. reflexivity.
Qed.

(* ------------------------------------------------------------ last_rows / drop_last *)
Lemma last_rows_skipn {A} n (l : list A) : n <> 0 -> last_rows n l = skipn (length l - n) l.
Proof. intros H. unfold last_rows. destruct (Nat.eqb_spec n 0); [contradiction|reflexivity]. Qed.

(* last_rows n l for n <= length l, including the numpy -0 quirk when l is empty *)
Lemma last_rows_skipn_le {A} n (l : list A) :
  1 <= n -> last_rows n l = skipn (length l - n) l.
Proof. intros H. apply last_rows_skipn. lia. Qed.

(* ------------------------------------------------------------ hstack *)
Lemma hstack_map {A B} (f g : B -> list A) (l : list B) :
  hstack (map f l) (map g l) = map (fun x => f x ++ g x) l.
Proof. unfold hstack. induction l as [|x l IH]; cbn [map map2]; [reflexivity|rewrite IH; reflexivity]. Qed.

Lemma hstack_cols {A} n (E : list (list A)) : hstack (map (firstn n) E) (map (skipn n) E) = E.
Proof.
  rewrite hstack_map. rewrite <- (map_id E) at 2. apply map_ext. intros r. apply firstn_skipn.
Qed.

Lemma skipn_hstack {A} k (M1 M2 : list (list A)) :
  skipn k (hstack M1 M2) = hstack (skipn k M1) (skipn k M2).
Proof.
  unfold hstack. revert M1 M2. induction k as [|k IH]; intros M1 M2; [reflexivity|].
  destruct M1 as [|a M1]; [rewrite !skipn_nil; reflexivity|].
  destruct M2 as [|b M2].
  - cbn [map2]. rewrite !skipn_nil. destruct (skipn (S k) (a :: M1)); reflexivity.
  - cbn [map2 skipn]. apply IH.
Qed.

Lemma hstack_firstn_cols {A} w (M1 M2 : list (list A)) :
  wid w M1 -> length M1 <= length M2 -> map (firstn w) (hstack M1 M2) = M1.
Proof.
  unfold hstack. revert M2. induction M1 as [|a M1 IH]; intros [|b M2] Hw Hl; cbn [length] in Hl; try lia; try reflexivity.
  cbn [map2 map]. f_equal.
  - rewrite firstn_app, (Hw a) by (left; reflexivity). rewrite Nat.sub_diag, firstn_all2 by (rewrite (Hw a) by (left; reflexivity); lia).
    cbn [firstn]. apply app_nil_r.
  - apply IH; [|lia]. intros r Hr. apply Hw. right; exact Hr.
Qed.

Lemma hstack_skipn_cols {A} w (M1 M2 : list (list A)) :
  wid w M1 -> length M2 <= length M1 -> map (skipn w) (hstack M1 M2) = M2.
Proof.
  unfold hstack. revert M2. induction M1 as [|a M1 IH]; intros [|b M2] Hw Hl; cbn [length] in Hl; try lia; try reflexivity.
  cbn [map2 map]. f_equal.
  - rewrite skipn_app, (Hw a) by (left; reflexivity). rewrite Nat.sub_diag, skipn_all2 by (rewrite (Hw a) by (left; reflexivity); lia).
    reflexivity.
  - apply IH; [|lia]. intros r Hr. apply Hw. right; exact Hr.
Qed.

Lemma hstack_length {A} (M1 M2 : list (list A)) : length (hstack M1 M2) = Nat.min (length M1) (length M2).
Proof. apply map2_length. Qed.

Lemma wid_skipn {A} w k (M : list (list A)) : wid w M -> wid w (skipn k M).
Proof. apply wid_sub. intros r. apply In_skipn. Qed.

Lemma wid_firstn {A} w k (M : list (list A)) : wid w M -> wid w (firstn k M).
Proof. apply wid_sub. intros r. apply In_firstn. Qed.

Lemma wid_last_rows {A} w k (M : list (list A)) : wid w M -> wid w (last_rows k M).
Proof. apply wid_sub. intros r. apply In_last_rows. Qed.

Lemma wid_cons {A} w (a : list A) M : wid w (a :: M) <-> length a = w /\ wid w M.
Proof.
  split.
  - intros H. split; [apply H; left; reflexivity|intros r Hr; apply H; right; exact Hr].
  - intros [H1 H2] r [<-|Hr]; [exact H1|apply H2; exact Hr].
Qed.

(* ------------------------------------------------------------ concat / chunks *)
Lemma chunks_concat {A} w (bs : list (list A)) :
  wid w bs -> chunks w (length bs) (concat bs) = bs.
Proof.
  induction bs as [|b bs IH]; intros Hw; [reflexivity|].
  apply wid_cons in Hw. destruct Hw as [Hb Hw].
  cbn [length chunks concat]. f_equal.
  - rewrite firstn_app, Hb, Nat.sub_diag, firstn_all2 by lia. cbn [firstn]. apply app_nil_r.
  - rewrite skipn_app, Hb, Nat.sub_diag, skipn_all2 by lia. cbn [skipn app]. apply IH. exact Hw.
Qed.

Lemma concat_length_wid {A} w (bs : list (list A)) : wid w bs -> length (concat bs) = length bs * w.
Proof.
  induction bs as [|b bs IH]; intros Hw; [reflexivity|].
  apply wid_cons in Hw. destruct Hw as [Hb Hw].
  cbn [concat length]. rewrite app_length, Hb, IH by exact Hw. lia.
Qed.

(* the last block of a concatenation of equal-width blocks *)
Lemma last_rows_concat_snoc {A} w (bs : list (list A)) (b : list A) :
  wid w bs -> length b = w -> last_rows w (concat (bs ++ [b])) = b.
Proof.
  intros Hw Hb. rewrite concat_app. cbn [concat]. rewrite app_nil_r.
  unfold last_rows. destruct (Nat.eqb_spec w 0) as [H0|Hn].
  - assert (Hc : length (concat bs) = 0) by (rewrite (concat_length_wid Hw); lia).
    destruct (concat bs); [reflexivity|discriminate].
  - rewrite app_length, Hb. replace (length (concat bs) + w - w) with (length (concat bs)) by lia.
    rewrite skipn_app, Nat.sub_diag, skipn_all. reflexivity.
Qed.

(* ------------------------------------------------------------ mapi *)
Lemma mapi_from_mapi_from {A B C} (f : nat -> A -> B) (g : nat -> B -> C) k (l : list A) :
  mapi_from g k (mapi_from f k l) = mapi_from (fun i x => g i (f i x)) k l.
Proof. revert k. induction l as [|a l IH]; intros k; cbn [mapi_from]; [reflexivity|rewrite IH; reflexivity]. Qed.

Lemma mapi_from_id {A} (f : nat -> A -> A) k (l : list A) :
  (forall i x, f i x = x) -> mapi_from f k l = l.
Proof. intros H. revert k. induction l as [|a l IH]; intros k; cbn [mapi_from]; [reflexivity|rewrite H, IH; reflexivity]. Qed.

(* ------------------------------------------------------------ misc *)
Lemma map_nth_seq_id {A} (r : list A) d n : length r = n -> map (fun j => nth j r d) (seq 0 n) = r.
Proof. intros <-. symmetry. apply list_as_map_nth. Qed.

Lemma drop_last_map_seq {A} (f : nat -> A) m :
  drop_last 1 (map f (seq 0 m)) = map f (seq 0 (m - 1)).
Proof.
  unfold drop_last. rewrite map_length, seq_length, firstn_map, firstn_seq'.
  replace (Nat.min (m - 1) m) with (m - 1) by lia. reflexivity.
Qed.

Lemma last_map_seq {A} (f : nat -> A) m d : 1 <= m -> last (map f (seq 0 m)) d = f (m - 1).
Proof.
  intros H. replace m with ((m - 1) + 1) at 1 by lia.
  rewrite seq_app, map_app. cbn [seq map Nat.add]. apply last_last.
Qed.
