(* C19 — feature names.  A name is an expression tree [nm]; every stage maps the
   list of names of its input columns to the list of names of its output columns
   exactly as its _transform_feature_names does on strings (own loops and
   re-ordering), [render] prints a tree with the code's own string formatting,
   and [ev] gives a tree its meaning on an episode.  Definitions only. *)
From Coq Require Import List ZArith NArith Bool Arith String Ascii DecimalString.
From PK Require Import PyList Episodes Stage.
Import ListNotations.
Open Scope string_scope.

Set Implicit Arguments.

Definition nat_str (n : nat) : string := NilZero.string_of_uint (Nat.to_uint n).

Section Names.
Variable T : Type.
Variable O : ops T.
Variable skn : nat -> string.        (* class name of the wrapped transformer *)

Inductive nm :=
| NEp                                   (* the episode column *)
| NUser (s : string)                    (* a verbatim user-supplied column name *)
| NX (k : nat) | NU (k : nat)           (* generated input names x_k / u_k *)
| NCol (k : nat)                        (* meaning of column k of the pipeline input *)
| NOne
| NMono (fs : list (nm * nat))          (* product of powers, in order *)
| NProd (a b : nm)                      (* bilinear: state * input *)
| NDelay (d : nat) (a : nm)
| NCos (a : nm) | NSin (a : nm)
| NSk (id c : nat) (a : nm)
| NRbf (id i : nat) (c : list T) (args : list nm) (has_u : bool)
| NKern (id i : nat) (args : list nm) (has_u : bool).

(* ---------- rendering: the code's own f-strings *)
Definition join (sep : string) (l : list string) : string :=
  match l with
  | [] => ""
  | a :: t => fold_left (fun acc s => acc ++ sep ++ s) t a
  end.

Definition br (latex : bool) (s : string) : string := if latex then "{" ++ s ++ "}" else s.

Fixpoint render (latex : bool) (n : nm) : string :=
  match n with
  | NEp => if latex then "\mathrm{episode}" else "ep"
  | NUser s => s
  | NX k => if latex then "x_{" ++ nat_str k ++ "}" else "x" ++ nat_str k
  | NU k => if latex then "u_{" ++ nat_str k ++ "}" else "u" ++ nat_str k
  | NCol k => "col" ++ nat_str k
  | NOne => "1"
  | NMono fs =>
      join (if latex then " " else "*")
           (map (fun fe => if Nat.eqb (snd fe) 1 then render latex (fst fe)
                           else render latex (fst fe) ++ "^" ++ br latex (nat_str (snd fe))) fs)
  | NProd a b => render latex a ++ (if latex then " " else "*") ++ render latex b
  | NDelay d a =>
      (if latex then "D_" else "D") ++ br latex (nat_str d) ++ "(" ++ render latex a ++ ")"
  | NCos a => (if latex then "\cos" else "cos") ++ br latex ("(" ++ render latex a ++ ")")
  | NSin a => (if latex then "\sin" else "sin") ++ br latex ("(" ++ render latex a ++ ")")
  | NSk id _ a =>
      (if latex then "\mathrm{" ++ skn id ++ "}" else skn id) ++ "(" ++ render latex a ++ ")"
  | NRbf _ i _ _ has_u =>
      "R_" ++ br latex (nat_str i) ++ "("
      ++ (if latex then (if has_u then "{\bf x}, {\bf u}" else "{\bf x}")
          else (if has_u then "x, u" else "x")) ++ ")"
  | NKern _ i _ has_u =>
      "z_" ++ br latex (nat_str i) ++ "("
      ++ (if latex then (if has_u then "{\bf x}, {\bf u}" else "{\bf x}")
          else (if has_u then "x, u" else "x")) ++ ")"
  end.

(* ---------- per-stage name transformers (names WITHOUT the episode name; the
   episode name is carried separately, as every _transform_feature_names does) *)
Definition leaf_names (l : leaf T) (d : dims) (ns_in : list nm) : list nm :=
  let '(ns, nu) := d in
  match l with
  | LPoly _ powers =>
      let all := map (fun p => NMono (filter (fun fe => negb (Nat.eqb (snd fe) 0)) (zip ns_in p))) powers in
      map (fun j => nth j all NOne) (poly_order (poly_fit_of powers d))
  | LBilinear _ =>
      firstn (ns + nu) ns_in
      ++ flat_map (fun u => map (fun x => NProd x u) (firstn ns ns_in)) (firstn nu (skipn ns ns_in))
  | LConst _ => firstn ns ns_in ++ [NOne] ++ skipn ns ns_in
  | LDelay _ dx du =>
      flat_map (fun dl => map (fun a => if Nat.eqb dl 0 then a else NDelay dl a) (firstn ns ns_in))
               (seq 0 (dx + 1))
      ++ flat_map (fun dl => map (fun a => if Nat.eqb dl 0 then a else NDelay dl a)
                                 (firstn nu (skipn ns ns_in)))
                  (seq 0 (du + 1))
  | LRbf id centers =>
      firstn (ns + nu) ns_in
      ++ mapi (fun i c => NRbf id i c (firstn (ns + nu) ns_in) (negb (Nat.eqb nu 0))) centers
  | LKernel _ id nf =>
      firstn (ns + nu) ns_in
      ++ map (fun i => NKern id i (firstn (ns + nu) ns_in) (negb (Nat.eqb nu 0))) (seq 0 nf)
  | LSk _ id => mapi (fun c a => NSk id c a) (firstn (ns + nu) ns_in)
  | LAngle _ feats _ =>
      flat_map (fun ba : bool * nm => if fst ba then [NCos (snd ba); NSin (snd ba)] else [snd ba])
               (zip (angle_mask feats (ns + nu)) ns_in)
  end.

Fixpoint snames (s : stage T) (d : dims) (ns_in : list nm) : list nm :=
  match s with
  | Leaf l => leaf_names l d ns_in
  | Split xs us =>
      cnames xs (fst d, 0) (firstn (fst d) ns_in)
      ++ cnames us (0, snd d) (skipn (fst d) ns_in)
  | Pipe c => cnames c d ns_in
  end
with cnames (c : chain T) (d : dims) (ns_in : list nm) : list nm :=
  match c with
  | CNil _ => ns_in
  | CCons s c' => cnames c' (sdims s d) (snames s d ns_in)
  end.

(* _generate_feature_names(lifted=False) without the episode name *)
Definition default_names (d : dims) : list nm :=
  map NX (seq 0 (fst d)) ++ map NU (seq 0 (snd d)).

(* get_feature_names_out(symbols_only=False): fit flag epf, call-time override *)
Definition feature_names_out (s : stage T) (epf : bool) (d : dims) (user : option (list string))
           (call : option bool) (latex : bool) : list string :=
  let c := match call with None => epf | Some b => b end in
  let ins := match user with
             | None => default_names d
             | Some l => map NUser (if epf then tl l else l)
             end in
  let epn := match user with
             | None => render latex NEp
             | Some l => if epf then hd "" l else render latex NEp
             end in
  let body := map (render latex) (snames s d ins) in
  if c then epn :: body else body.

(* get_feature_names_out(symbols_only=True) *)
Definition symbol_names (s : stage T) (epf : bool) (d : dims) (call : option bool) (latex : bool)
  : list string :=
  let c := match call with None => epf | Some b => b end in
  let o := sdims s d in
  (if c then [render latex NEp] else [])
  ++ map (fun k => if latex then "\vartheta_{" ++ nat_str k ++ "}" else "theta" ++ nat_str k) (seq 0 (fst o))
  ++ map (fun k => if latex then "\upsilon_{" ++ nat_str k ++ "}" else "upsilon" ++ nat_str k) (seq 0 (snd o)).

(* ---------- meaning of a name on one episode E (rows of the pipeline input,
   without label) at absolute time tau *)
Definition cell (E : list (list T)) (tau k : nat) : T := nth k (nth tau E []) (op_t0 O).

Fixpoint ev (E : list (list T)) (colmap : string -> nat) (n : nm) (tau : nat) : T :=
  match n with
  | NEp => op_t0 O
  | NUser s => cell E tau (colmap s)
  | NX k => cell E tau (colmap (render false (NX k)))
  | NU k => cell E tau (colmap (render false (NU k)))
  | NCol k => cell E tau k
  | NOne => op_t1 O
  | NMono fs =>
      fold_right (op_mul O) (op_t1 O)
        (map (fun fe => tpow O (ev E colmap (fst fe) tau) (snd fe)) fs)
  | NProd a b => op_mul O (ev E colmap a tau) (ev E colmap b tau)
  | NDelay d a => ev E colmap a (tau - d)
  | NCos a => op_cos O (ev E colmap a tau)
  | NSin a => op_sin O (ev E colmap a tau)
  | NSk id c a => op_sk_fwd O id c (ev E colmap a tau)
  | NRbf id _ c args _ => op_radial O id (map (fun a => ev E colmap a tau) args) c
  | NKern id i args _ => op_kern O id i (map (fun a => ev E colmap a tau) args)
  end.

End Names.
