(* The Koopman step of predict_trajectory (C07): with A, B the blocks of self.regressor_.coef_.T as the source slices them
   (Gen/PredictAlg.v, regenerated), Theta @ A.T + Upsilon @ B.T is [Theta Upsilon] @ coef_ - one application of the
   matrix that KoopmanRegressor.predict applies - over every ring, for every size. *)
From mathcomp Require Import all_ssreflect all_algebra.
From PK.Gen Require Import PredictAlg.
Set Implicit Arguments.
Unset Strict Implicit.
Import GRing.Theory.
Local Open Scope ring_scope.

Section BridgePredictAlg.
Variable F : ringType.
Variables (p q m : nat).
Variable coef : 'M[F]_(p + q, p).

Lemma gen_A_T : (gen_A coef)^T = usubmx coef.
Proof. by rewrite /gen_A /gen_koop_mat trmx_lsub trmxK. Qed.

Lemma gen_B_T : (gen_B coef)^T = dsubmx coef.
Proof. by rewrite /gen_B /gen_koop_mat trmx_rsub trmxK. Qed.

Theorem gen_koopman_step_model : forall (Theta : 'M[F]_(m, p)) (Upsilon : 'M[F]_(m, q)),
  gen_koopman_step coef Theta Upsilon = row_mx Theta Upsilon *m coef.
Proof.
  move=> Theta Upsilon. rewrite /gen_koopman_step gen_A_T gen_B_T.
  by rewrite -{3}(vsubmxK coef) mul_row_col.
Qed.

(* consequently the blocks are those of the Koopman matrix: x+ = A x + B u with [A B] = coef_^T *)
Lemma gen_AB_blocks : row_mx (gen_A coef) (gen_B coef) = coef^T.
Proof. by rewrite /gen_A /gen_B /gen_koop_mat hsubmxK. Qed.

End BridgePredictAlg.
