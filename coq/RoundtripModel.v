(* C01 — the model's inverse, per episode, IS the per-episode specification itf_ep
   (stage trees without the np.unwrap variant of the angle pre-processor), and the
   round-trip / state-prefix theorems lifted to the model's transform / inverse. *)
From Coq Require Import List ZArith NArith Bool Arith Lia Setoid.
From PK Require Import PyList ListFacts Episodes EpisodesFacts Stage StageEqns StageSpec StageFacts
  EpisodeSem NonInterf RoundtripSpec RoundtripList RoundtripDelay RoundtripLeaf Roundtrip.
Import ListNotations.
Set Implicit Arguments.

Section Model.
Variable T : Type.
Variable O : ops T.
Notation stage := (stage T).
Notation chain := (chain T).
Notation mat := (list (list T)).
Notation dmat := (dmat T).

(* ------------------------------------------------------------ ep = false *)
Definition ifalse_stage (s : stage) : Prop :=
  forall d (X : dmat), no_unwrap s = true -> rows (inverse O s false d X) = itf_ep O s d (rows X).
Definition ifalse_chain (c : chain) : Prop :=
  forall d (X : dmat), cno_unwrap c = true -> rows (cinverse O c false d X) = citf_ep O c d (rows X).

Theorem inverse_false : forall s, ifalse_stage s.
Proof.
  apply (stage_mut ifalse_stage ifalse_chain).
  - intros l d X Hnu. rewrite inverse_leaf, itf_ep_leaf. rewrite no_unwrap_leaf in Hnu.
    destruct l as [powers| | |dx du|id centers|id nf|id|feats [|]];
      cbn [leaf_inverse leaf_iep]; try apply rows_rowwise.
    + apply rows_map_episodes_false.
    + discriminate.
  - intros xs IHx us IHu d X Hnu. rewrite no_unwrap_split in Hnu. apply andb_prop in Hnu. destruct Hnu as [Hx Hu].
    rewrite inverse_split, itf_ep_split, rows_zip_branches_false.
    rewrite IHx, IHu by assumption. unfold cols_state, cols_input. rewrite !rows_map_episodes_false. reflexivity.
  - intros c IHc d X Hnu. rewrite no_unwrap_pipe in Hnu. rewrite inverse_pipe, itf_ep_pipe. apply IHc. exact Hnu.
  - intros d X _. reflexivity.
  - intros s IHs c IHc d X Hnu. rewrite cno_unwrap_cons in Hnu. apply andb_prop in Hnu. destruct Hnu as [Hs Hc].
    rewrite cinverse_cons, citf_ep_cons, IHs, IHc by assumption. reflexivity.
Qed.

(* ------------------------------------------------------------ itf_ep X = [] iff X = [] *)
Lemma map_nil_iff {A B} (f : A -> B) (l : list A) : map f l = [] <-> l = [].
Proof. destruct l; cbn [map]; split; intros H; try reflexivity; discriminate. Qed.

Lemma undelay_nil_iff n (E : mat) : undelay n E = [] <-> E = [].
Proof.
  split.
  - intros H. destruct E as [|r E]; [reflexivity|]. exfalso.
    apply (@undelay_nonempty T n (r :: E)); [discriminate|exact H].
  - intros ->. reflexivity.
Qed.

Lemma undelay_ep_nil_iff d dx du (X : mat) : undelay_ep d dx du X = [] <-> X = [].
Proof.
  unfold undelay_ep.
  fold (align (undelay dx (map (firstn (fst d * (dx + 1))) X)) (undelay du (map (skipn (fst d * (dx + 1))) X))).
  rewrite align_nil_iff, !undelay_nil_iff, !map_nil_iff. tauto.
Qed.

Definition inil_stage (s : stage) : Prop := forall d (X : mat), itf_ep O s d X = [] <-> X = [].
Definition inil_chain (c : chain) : Prop := forall d (X : mat), citf_ep O c d X = [] <-> X = [].

Lemma itf_ep_nil_iff : forall s, inil_stage s.
Proof.
  apply (stage_mut inil_stage inil_chain).
  - intros l d X. rewrite itf_ep_leaf. destruct l; cbn [leaf_iep]; try apply map_nil_iff.
    apply undelay_ep_nil_iff.
  - intros xs IHx us IHu d X. unfold inil_chain in IHx, IHu.
    rewrite itf_ep_split, align_nil_iff, IHx, IHu, !map_nil_iff. tauto.
  - intros c IHc d X. rewrite itf_ep_pipe. apply IHc.
  - intros d X. rewrite citf_ep_nil. tauto.
  - intros s IHs c IHc d X. unfold inil_stage in IHs. unfold inil_chain in IHc.
    rewrite citf_ep_cons, IHs, IHc. tauto.
Qed.

Lemma citf_ep_nil_iff (c : chain) d (X : mat) : citf_ep O c d X = [] <-> X = [].
Proof. pose proof (itf_ep_nil_iff (Pipe c) d X) as H. rewrite itf_ep_pipe in H. exact H. Qed.

(* ------------------------------------------------------------ ep = true *)
Definition itrue_stage (s : stage) : Prop :=
  forall d (X : dmat), no_unwrap s = true ->
    forall i, rows_of i (inverse O s true d X) = itf_ep O s d (rows_of i X).
Definition itrue_chain (c : chain) : Prop :=
  forall d (X : dmat), cno_unwrap c = true ->
    forall i, rows_of i (cinverse O c true d X) = citf_ep O c d (rows_of i X).

Theorem inverse_true : forall s, itrue_stage s.
Proof.
  apply (stage_mut itrue_stage itrue_chain).
  - (* leaf *)
    intros l d X Hnu i. rewrite inverse_leaf, itf_ep_leaf. rewrite no_unwrap_leaf in Hnu.
    destruct l as [powers| | |dx du|id centers|id nf|id|feats [|]];
      cbn [leaf_inverse leaf_iep]; try apply rows_of_rowwise.
    + apply rows_of_map_episodes. apply undelay_ep_nil_iff. reflexivity.
    + discriminate.
  - (* split *)
    intros xs IHx us IHu d X Hnu i. rewrite no_unwrap_split in Hnu. apply andb_prop in Hnu. destruct Hnu as [Hx Hu].
    rewrite inverse_split, itf_ep_split.
    set (nso := fst (sdims (Split xs us) d)).
    set (Xs := cols_state true nso X). set (Xu := cols_input true nso X).
    assert (HXs : forall j, rows_of j Xs = map (firstn nso) (rows_of j X))
      by (intros j; apply rows_of_map_episodes; reflexivity).
    assert (HXu : forall j, rows_of j Xu = map (skipn nso) (rows_of j X))
      by (intros j; apply rows_of_map_episodes; reflexivity).
    assert (HLs : forall j, In j (labels (cinverse O xs true (fst d, 0) Xs)) <-> In j (labels X)).
    { apply labels_iff_rows. intros j. rewrite (IHx (fst d, 0) Xs Hx j), citf_ep_nil_iff, HXs. apply map_nil_iff. }
    assert (HLu : forall j, In j (labels (cinverse O us true (0, snd d) Xu)) <-> In j (labels X)).
    { apply labels_iff_rows. intros j. rewrite (IHu (0, snd d) Xu Hu j), citf_ep_nil_iff, HXu. apply map_nil_iff. }
    rewrite rows_of_zip_branches.
    + rewrite (IHx (fst d, 0) Xs Hx i), (IHu (0, snd d) Xu Hu i), HXs, HXu. reflexivity.
    + intros j. rewrite HLs, HLu. reflexivity.
  - (* pipe *)
    intros c IHc d X Hnu i. rewrite no_unwrap_pipe in Hnu. rewrite inverse_pipe, itf_ep_pipe. apply IHc. exact Hnu.
  - (* nil *)
    intros d X _ i. reflexivity.
  - (* cons *)
    intros s IHs c IHc d X Hnu i. rewrite cno_unwrap_cons in Hnu. apply andb_prop in Hnu. destruct Hnu as [Hs Hc].
    rewrite cinverse_cons, citf_ep_cons. rewrite (IHs d _ Hs i), (IHc (sdims s d) X Hc i). reflexivity.
Qed.

(* labels are exactly preserved by inverse, for ANY matrix (no validity premise) *)
Theorem inverse_labels (s : stage) d (X : dmat) :
  no_unwrap s = true -> forall i, In i (labels (inverse O s true d X)) <-> In i (labels X).
Proof.
  intros Hnu. apply labels_iff_rows. intros i.
  rewrite (inverse_true s d X Hnu i). apply itf_ep_nil_iff.
Qed.

(* ------------------------------------------------------------ the theorems on the model *)
Variable inrange : T -> Prop.
Hypothesis H_atan : forall x, inrange x -> op_atan2 O (op_sin O x) (op_cos O x) = x.
Hypothesis H_sk : forall id c x, op_sk_inv O id c (op_sk_fwd O id c x) = x.
Hypothesis H_mul1l : forall x, op_mul O (op_t1 O) x = x.
Hypothesis H_mul1r : forall x, op_mul O x (op_t1 O) = x.

(* without episode feature: the whole matrix is one episode *)
Theorem roundtrip_false (s : stage) d (X : dmat) :
  wf s d = true -> no_unwrap s = true -> dwid (fst d + snd d) X ->
  angles_ok O inrange s d (rows X) -> samples_in s 1 <= length X ->
  rows (inverse O s false d (transform O s false d X)) = skipn (lag s) (rows X).
Proof.
  intros Hwf Hnu Hw Ha Hl. rewrite (inverse_false s d _ Hnu), (transform_false O s d X).
  apply (@roundtrip_spec T O inrange H_atan H_sk H_mul1l H_mul1r); try assumption.
  unfold rows. rewrite map_length. exact Hl.
Qed.

(* with episode feature: every episode on its own *)
Theorem roundtrip_true (s : stage) d (X : dmat) :
  wf s d = true -> no_unwrap s = true -> dwid (fst d + snd d) X ->
  (forall i, In i (labels X) -> angles_ok O inrange s d (rows_of i X)) ->
  valid (samples_in s 1) X ->
  forall i, rows_of i (inverse O s true d (transform O s true d X)) = skipn (lag s) (rows_of i X).
Proof.
  intros Hwf Hnu Hw Ha Hv i.
  rewrite (inverse_true s d _ Hnu i).
  pose proof (transform_true O s) as Htt. unfold true_stage in Htt. rewrite (Htt d X Hv i).
  destruct (in_dec N.eq_dec i (labels X)) as [Hi|Hn].
  - apply (@roundtrip_spec T O inrange H_atan H_sk H_mul1l H_mul1r); try assumption.
    + intros r Hr. apply Hw. eapply In_rows_of; exact Hr.
    + apply Ha. exact Hi.
    + apply Hv. exact Hi.
  - pose proof (proj2 (rows_of_nil_iff i X) Hn) as H0. unfold Episodes.row in *. rewrite H0.
    rewrite (tf_ep_nil O s d), skipn_nil. apply itf_ep_nil_iff. reflexivity.
Qed.

(* the episodes that come back are exactly the episodes that went in *)
Theorem roundtrip_labels (s : stage) d (X : dmat) :
  no_unwrap s = true -> valid (samples_in s 1) X ->
  forall i, In i (labels (inverse O s true d (transform O s true d X))) <-> In i (labels X).
Proof.
  intros Hnu Hv i. rewrite (inverse_labels s d _ Hnu i). apply transform_labels. exact Hv.
Qed.

(* state prefix on the model *)
Theorem state_prefix_false (s : stage) d (X : dmat) :
  wf s d = true -> no_preproc s = true -> dwid (fst d + snd d) X -> samples_in s 1 <= length X ->
  map (firstn (fst d)) (rows (transform O s false d X))
  = map (firstn (fst d)) (skipn (samples_in s 1 - 1) (rows X)).
Proof.
  intros Hwf Hnp Hw Hl. rewrite (transform_false O s d X).
  apply (@state_prefix_spec T O H_mul1l H_mul1r); try assumption.
  unfold rows. rewrite map_length. exact Hl.
Qed.

Theorem state_prefix_true (s : stage) d (X : dmat) :
  wf s d = true -> no_preproc s = true -> dwid (fst d + snd d) X -> valid (samples_in s 1) X ->
  forall i, In i (labels X) ->
  map (firstn (fst d)) (rows_of i (transform O s true d X))
  = map (firstn (fst d)) (skipn (samples_in s 1 - 1) (rows_of i X)).
Proof.
  intros Hwf Hnp Hw Hv i Hi.
  pose proof (transform_true O s) as Htt. unfold true_stage in Htt. rewrite (Htt d X Hv i).
  apply (@state_prefix_spec T O H_mul1l H_mul1r); try assumption.
  - intros r Hr. apply Hw. eapply In_rows_of; exact Hr.
  - apply Hv. exact Hi.
Qed.

End Model.
