(* List toolkit for the prediction-loop theorems: set_row, window, hstack, zip. *)
From Coq Require Import List ZArith NArith Bool Arith Lia.
From PK Require Import PyList ListFacts Episodes Stage Helpers.
Import ListNotations.

Set Implicit Arguments.

Section PL.
Variable T : Type.
Notation raw := (list (list T)).

Lemma set_row_length k (x : list T) (R : raw) : length (set_row k x R) = length R.
Proof.
  revert k. induction R as [|a R IH]; intros [|k]; cbn [set_row length]; try reflexivity.
  rewrite IH. reflexivity.
Qed.

(* writing at the first not-yet-written index *)
Lemma set_row_app_exact k (x z : list T) (P Z : raw) :
  length P = k -> set_row k x (P ++ z :: Z) = P ++ x :: Z.
Proof.
  revert k. induction P as [|a P IH]; intros k H; cbn [length] in H; subst k; cbn [app set_row].
  - reflexivity.
  - rewrite IH by reflexivity. reflexivity.
Qed.

Lemma set_row_app_snoc k (x z : list T) (P Z : raw) :
  length P = k -> set_row k x (P ++ z :: Z) = (P ++ [x]) ++ Z.
Proof. intros H. rewrite (set_row_app_exact x z P Z H), <- app_assoc. reflexivity. Qed.

(* rows before the written index are untouched *)
Lemma firstn_set_row j k (x : list T) (R : raw) : j <= k -> firstn j (set_row k x R) = firstn j R.
Proof.
  revert j k. induction R as [|a R IH]; intros j k H; [destruct k; reflexivity|].
  destruct j as [|j]; [reflexivity|]. destruct k as [|k]; [lia|].
  cbn [set_row firstn]. rewrite IH by lia. reflexivity.
Qed.

Lemma skipn_app_le {A} (l1 l2 : list A) n : n <= length l1 -> skipn n (l1 ++ l2) = skipn n l1 ++ l2.
Proof.
  intros H. rewrite skipn_app. replace (n - length l1) with 0 by lia. reflexivity.
Qed.

Lemma firstn_app_le' {A} (l1 l2 : list A) n : n <= length l1 -> firstn n (l1 ++ l2) = firstn n l1.
Proof.
  intros H. rewrite firstn_app. replace (n - length l1) with 0 by lia. cbn [firstn]. apply app_nil_r.
Qed.

Lemma firstn_app_exact' {A} (l1 l2 : list A) n : length l1 = n -> firstn n (l1 ++ l2) = l1.
Proof. intros <-. rewrite firstn_app, Nat.sub_diag, firstn_all. cbn [firstn]. apply app_nil_r. Qed.

(* a window that ends inside the prefix does not see what follows *)
Lemma window_app_le w k (P Q : raw) : k + w <= length P -> window w k (P ++ Q) = window w k P.
Proof.
  intros H. unfold window. rewrite skipn_app_le by lia.
  apply firstn_app_le'. rewrite skipn_length. lia.
Qed.

Lemma window_length w k (R : raw) : k + w <= length R -> length (window w k R) = w.
Proof. intros H. unfold window. rewrite firstn_length, skipn_length. lia. Qed.

Lemma nth_app_exact {A} (l1 l2 : list A) (x d : A) k : length l1 = k -> nth k (l1 ++ x :: l2) d = x.
Proof. intros <-. rewrite app_nth2 by lia. rewrite Nat.sub_diag. reflexivity. Qed.

Lemma nth_app_lt {A} (l1 l2 : list A) (d : A) k : k < length l1 -> nth k (l1 ++ l2) d = nth k l1 d.
Proof. intros H. apply app_nth1. exact H. Qed.

Lemma repeat_S {A} (x : A) n : repeat x (S n) = x :: repeat x n.
Proof. reflexivity. Qed.

Lemma hstack_length (A B : raw) : length (hstack A B) = Nat.min (length A) (length B).
Proof. apply map2_length. Qed.

Lemma hstack_nth (A B : raw) k :
  k < length A -> k < length B -> nth k (hstack A B) [] = nth k A [] ++ nth k B [].
Proof.
  unfold hstack. revert B k. induction A as [|a A IH]; intros [|b B] k HA HB; cbn [length] in *; try lia.
  destruct k as [|k]; cbn [map2 nth]; [reflexivity|]. apply IH; lia.
Qed.

(* the right block of an hstack is recovered by dropping the left block's width *)
Lemma hstack_skipn n (A B : raw) :
  wid n A -> length A = length B -> map (skipn n) (hstack A B) = B.
Proof.
  unfold hstack. revert B. induction A as [|a A IH]; intros [|b B] HA HL; cbn [length] in HL; try discriminate.
  - reflexivity.
  - cbn [map2 map]. f_equal.
    + rewrite skipn_app. rewrite <- (HA a (or_introl eq_refl)).
      rewrite skipn_all, Nat.sub_diag. reflexivity.
    + apply IH; [|lia]. intros x Hx. apply HA. right. exact Hx.
Qed.

Lemma hstack_firstn n (A B : raw) :
  wid n A -> length A = length B -> map (firstn n) (hstack A B) = A.
Proof.
  unfold hstack. revert B. induction A as [|a A IH]; intros [|b B] HA HL; cbn [length] in HL; try discriminate.
  - reflexivity.
  - cbn [map2 map]. f_equal.
    + apply firstn_app_exact'. apply HA. left. reflexivity.
    + apply IH; [|lia]. intros x Hx. apply HA. right. exact Hx.
Qed.

Lemma zip_map_same' {A B C} (f : A -> B) (g : A -> C) (l : list A) :
  zip (map f l) (map g l) = map (fun x => (f x, g x)) l.
Proof. induction l as [|a l IH]; cbn [map zip]; [reflexivity|rewrite IH; reflexivity]. Qed.

End PL.
