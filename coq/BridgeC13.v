(* C13 bridge: theorems about Dmd._fit_regressor as REGENERATED from the source
   (Gen/Regressors.v, Section GenDmd).  LAPACK's truncated SVD and eigendecomposition are
   oracles: their outputs are variables, their contracts explicit hypotheses. *)
From mathcomp Require Import all_ssreflect all_algebra.
From PK.Gen Require Import Regressors.
Set Implicit Arguments.
Unset Strict Implicit.
Unset Printing Implicit Defensive.
Import GRing.Theory.
Local Open Scope ring_scope.

Section Bridge.
Variable F : fieldType.
Variables p q r : nat.
Variable X_unshifted X_shifted : 'M[F]_(q, p).
Variables (Q : 'M[F]_(p, r)) (sigma : 'rV[F]_r) (Z : 'M[F]_(q, r)) (lmb : 'rV[F]_r) (V_tilde : 'M[F]_r).

Notation U_tilde := (gen_dmd_U_tilde X_shifted Q sigma Z).
Notation modes_exact := (gen_dmd_modes_exact X_shifted sigma Z V_tilde).
Notation modes_projected := (gen_dmd_modes_projected Q V_tilde).
Notation Lambda := (gen_dmd_Sigma lmb).

(* contract of the eig oracle on the argument the code passes to it *)
Hypothesis eig_ok : gen_dmd_eig_argument X_shifted Q sigma Z *m V_tilde = V_tilde *m Lambda.

(* exact modes are eigenvectors, with the published eigenvalues, of the full DMD operator
   Psi_+ Z Sigma^-1 Q^T (no orthogonality needed) *)
Definition dmd_operator : 'M[F]_p :=
  gen_dmd_Psi_p X_shifted *m Z *m gen_dmd_Sigma_inv sigma *m Q^T.

Lemma exact_modes_eigen : dmd_operator *m modes_exact = modes_exact *m Lambda.
Proof.
rewrite /dmd_operator /gen_dmd_modes_exact.
set S := gen_dmd_Sigma_inv sigma. set Pp := gen_dmd_Psi_p X_shifted.
have -> : Pp *m Z *m S *m Q^T *m (Pp *m Z *m S *m V_tilde)
        = Pp *m Z *m S *m ((Q^T *m Pp *m Z *m S) *m V_tilde) by rewrite !mulmxA.
have -> : Q^T *m Pp *m Z *m S = gen_dmd_eig_argument X_shifted Q sigma Z by [].
by rewrite eig_ok !mulmxA.
Qed.

(* projected modes are eigenvectors of the projected operator Q U_tilde Q^T when the retained
   left singular vectors are orthonormal *)
Lemma projected_modes_eigen : Q^T *m Q = 1%:M ->
  (Q *m U_tilde *m Q^T) *m modes_projected = modes_projected *m Lambda.
Proof.
move=> QQ. rewrite /gen_dmd_modes_projected.
have -> : Q *m U_tilde *m Q^T *m (Q *m V_tilde) = Q *m U_tilde *m (Q^T *m Q) *m V_tilde by rewrite !mulmxA.
rewrite QQ mulmx1 -mulmxA.
have -> : U_tilde = gen_dmd_eig_argument X_shifted Q sigma Z by [].
by rewrite eig_ok mulmxA.
Qed.

(* the operator the method returns: U = X^T where X solves the generated system exactly.
   Then every column of modes_ is an eigenvector of U with the published eigenvalue. *)
Lemma returned_operator_eigen (modes : 'M[F]_(p, r)) (X : 'M[F]_p) :
  gen_dmd_lstsq_lhs modes *m X = gen_dmd_lstsq_rhs lmb modes ->
  X^T *m modes = modes *m Lambda.
Proof.
rewrite /gen_dmd_lstsq_lhs /gen_dmd_lstsq_rhs => H.
by apply: trmx_inj; rewrite trmx_mul trmxK.
Qed.

End Bridge.

(* ---------- Dmdc._fit_regressor as regenerated from the source (Gen/Regressors.v, Section GenDmdc) *)
Section BridgeDmdc.
Variable F : fieldType.
Variables pt pu q r rh : nat.
Variable X_unshifted : 'M[F]_(q, pt + pu).
Variable X_shifted : 'M[F]_(q, pt).
Variables (Q_tld : 'M[F]_(pt + pu, r)) (sig_tld : 'rV[F]_r) (Z_tld : 'M[F]_(q, r)).
Variables (Q_hat : 'M[F]_(pt, rh)) (sig_hat : 'rV[F]_rh) (Z_hat : 'M[F]_(q, rh)).
Variables (lmb : 'rV[F]_rh) (V_tld : 'M[F]_rh).

Notation A := (gen_dmdc_A X_shifted Q_tld sig_tld Z_tld).
Notation B := (gen_dmdc_B X_shifted Q_tld sig_tld Z_tld).
Notation A_tld := (gen_dmdc_A_tld X_shifted Q_tld sig_tld Z_tld Q_hat).
Notation V_exact := (gen_dmdc_modes_exact X_shifted Q_tld sig_tld Z_tld Q_hat V_tld).
Notation V_proj := (gen_dmdc_modes_projected Q_hat V_tld).
Notation Lambda := (gen_dmdc_Sigma lmb).

Hypothesis eig_ok : gen_dmdc_eig_argument X_shifted Q_tld sig_tld Z_tld Q_hat *m V_tld = V_tld *m Lambda.

(* the reduced operator is the projection of A, and the exact modes are A applied to the projected ones *)
Lemma dmdc_A_tld_is_projection : A_tld = Q_hat^T *m A *m Q_hat.
Proof. by rewrite /gen_dmdc_A_tld /gen_dmdc_A !mulmxA. Qed.

Lemma dmdc_exact_is_A_projected : V_exact = A *m V_proj.
Proof. by rewrite /gen_dmdc_modes_exact /gen_dmdc_modes_projected /gen_dmdc_A !mulmxA. Qed.

(* projected modes: eigenvectors of Q_hat A_tilde Q_hat^T when the retained left singular vectors are orthonormal *)
Lemma dmdc_projected_modes_eigen : Q_hat^T *m Q_hat = 1%:M ->
  (Q_hat *m A_tld *m Q_hat^T) *m V_proj = V_proj *m Lambda.
Proof.
move=> QQ. rewrite /gen_dmdc_modes_projected.
have -> : Q_hat *m A_tld *m Q_hat^T *m (Q_hat *m V_tld) = Q_hat *m A_tld *m (Q_hat^T *m Q_hat) *m V_tld by rewrite !mulmxA.
rewrite QQ mulmx1 -mulmxA.
have -> : A_tld = gen_dmdc_eig_argument X_shifted Q_tld sig_tld Z_tld Q_hat by [].
by rewrite eig_ok mulmxA.
Qed.

(* exact modes: eigenvectors of the full operator A whenever Q_hat spans the range of A (in particular when the
   SVD of the shifted data is not truncated: Theta_+ = Q_hat S_hat Z_hat^T gives Q_hat Q_hat^T A = A) *)
Lemma dmdc_exact_modes_eigen : Q_hat *m Q_hat^T *m A = A -> A *m V_exact = V_exact *m Lambda.
Proof.
move=> HA. rewrite dmdc_exact_is_A_projected /gen_dmdc_modes_projected.
have -> : A *m (Q_hat *m V_tld) *m Lambda = A *m Q_hat *m (V_tld *m Lambda) by rewrite !mulmxA.
rewrite -eig_ok.
have -> : gen_dmdc_eig_argument X_shifted Q_tld sig_tld Z_tld Q_hat = Q_hat^T *m A *m Q_hat by exact: dmdc_A_tld_is_projection.
have -> : A *m Q_hat *m (Q_hat^T *m A *m Q_hat *m V_tld) = A *m (Q_hat *m Q_hat^T *m A) *m (Q_hat *m V_tld) by rewrite !mulmxA.
by rewrite HA !mulmxA.
Qed.

Lemma dmdc_range_untruncated :
  gen_dmdc_Theta_p X_shifted = Q_hat *m diag_mx sig_hat *m Z_hat^T -> Q_hat^T *m Q_hat = 1%:M ->
  Q_hat *m Q_hat^T *m A = A.
Proof.
move=> HT QQ. rewrite /gen_dmdc_A HT.
have -> : Q_hat *m Q_hat^T *m (Q_hat *m diag_mx sig_hat *m Z_hat^T *m Z_tld *m gen_dmdc_Sig_tld_inv sig_tld *m (gen_dmdc_Q_tld_1 Q_tld)^T)
        = Q_hat *m (Q_hat^T *m Q_hat) *m diag_mx sig_hat *m Z_hat^T *m Z_tld *m gen_dmdc_Sig_tld_inv sig_tld *m (gen_dmdc_Q_tld_1 Q_tld)^T
  by rewrite !mulmxA.
by rewrite QQ mulmx1.
Qed.

Lemma dmdc_exact_modes_untruncated :
  gen_dmdc_Theta_p X_shifted = Q_hat *m diag_mx sig_hat *m Z_hat^T -> Q_hat^T *m Q_hat = 1%:M ->
  A *m V_exact = V_exact *m Lambda.
Proof. move=> HT QQ. apply: dmdc_exact_modes_eigen. exact: dmdc_range_untruncated. Qed.

(* the returned operator: coef = hstack((A_r, B))^T with A_r^T an exact solution of the generated system; the
   state-transition block of coef^T is A_r, its input block is B, and every column of modes_ is an eigenvector of
   A_r with the published eigenvalue *)
Lemma dmdc_returned_operator (modes : 'M[F]_(pt, rh)) (X : 'M[F]_pt) :
  gen_dmdc_lstsq_lhs modes *m X = gen_dmdc_lstsq_rhs lmb modes ->
  let coef := gen_dmdc_coef X_shifted Q_tld sig_tld Z_tld X^T in
  lsubmx coef^T = X^T /\ rsubmx coef^T = B /\ lsubmx coef^T *m modes = modes *m Lambda.
Proof.
rewrite /gen_dmdc_lstsq_lhs /gen_dmdc_lstsq_rhs /gen_dmdc_coef => H /=.
rewrite trmxK row_mxKl row_mxKr; split=> //; split=> //.
by apply: trmx_inj; rewrite trmx_mul trmxK.
Qed.

End BridgeDmdc.
