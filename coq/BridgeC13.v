(* C13 bridge: theorems about Dmd._fit_regressor as REGENERATED from the source
   (Gen/Regressors.v, Section GenDmd).  LAPACK's truncated SVD and eigendecomposition are
   oracles: their outputs are variables, their contracts explicit hypotheses. *)
From mathcomp Require Import all_ssreflect all_algebra.
From PK.Gen Require Import Regressors.
Set Implicit Arguments.
Unset Strict Implicit.
Unset Printing Implicit Defensive.
Import GRing.Theory.
Local Open Scope ring_scope.

Section Bridge.
Variable F : fieldType.
Variables p q r : nat.
Variable X_unshifted X_shifted : 'M[F]_(q, p).
Variables (Q : 'M[F]_(p, r)) (sigma : 'rV[F]_r) (Z : 'M[F]_(q, r)) (lmb : 'rV[F]_r) (V_tilde : 'M[F]_r).

Notation U_tilde := (gen_dmd_U_tilde X_shifted Q sigma Z).
Notation modes_exact := (gen_dmd_modes_exact X_shifted sigma Z V_tilde).
Notation modes_projected := (gen_dmd_modes_projected Q V_tilde).
Notation Lambda := (gen_dmd_Sigma lmb).

(* contract of the eig oracle on the argument the code passes to it *)
Hypothesis eig_ok : gen_dmd_eig_argument X_shifted Q sigma Z *m V_tilde = V_tilde *m Lambda.

(* exact modes are eigenvectors, with the published eigenvalues, of the full DMD operator
   Psi_+ Z Sigma^-1 Q^T (no orthogonality needed) *)
Definition dmd_operator : 'M[F]_p :=
  gen_dmd_Psi_p X_shifted *m Z *m gen_dmd_Sigma_inv sigma *m Q^T.

Lemma exact_modes_eigen : dmd_operator *m modes_exact = modes_exact *m Lambda.
Proof.
rewrite /dmd_operator /gen_dmd_modes_exact.
set S := gen_dmd_Sigma_inv sigma. set Pp := gen_dmd_Psi_p X_shifted.
have -> : Pp *m Z *m S *m Q^T *m (Pp *m Z *m S *m V_tilde)
        = Pp *m Z *m S *m ((Q^T *m Pp *m Z *m S) *m V_tilde) by rewrite !mulmxA.
have -> : Q^T *m Pp *m Z *m S = gen_dmd_eig_argument X_shifted Q sigma Z by [].
by rewrite eig_ok !mulmxA.
Qed.

(* projected modes are eigenvectors of the projected operator Q U_tilde Q^T when the retained
   left singular vectors are orthonormal *)
Lemma projected_modes_eigen : Q^T *m Q = 1%:M ->
  (Q *m U_tilde *m Q^T) *m modes_projected = modes_projected *m Lambda.
Proof.
move=> QQ. rewrite /gen_dmd_modes_projected.
have -> : Q *m U_tilde *m Q^T *m (Q *m V_tilde) = Q *m U_tilde *m (Q^T *m Q) *m V_tilde by rewrite !mulmxA.
rewrite QQ mulmx1 -mulmxA.
have -> : U_tilde = gen_dmd_eig_argument X_shifted Q sigma Z by [].
by rewrite eig_ok mulmxA.
Qed.

(* the operator the method returns: U = X^T where X solves the generated system exactly.
   Then every column of modes_ is an eigenvector of U with the published eigenvalue. *)
Lemma returned_operator_eigen (modes : 'M[F]_(p, r)) (X : 'M[F]_p) :
  gen_dmd_lstsq_lhs modes *m X = gen_dmd_lstsq_rhs lmb modes ->
  X^T *m modes = modes *m Lambda.
Proof.
rewrite /gen_dmd_lstsq_lhs /gen_dmd_lstsq_rhs => H.
by apply: trmx_inj; rewrite trmx_mul trmxK.
Qed.

End Bridge.
