(* C04 (widths) — every row produced by transform has width
   n_states_out + n_inputs_out, for every stage tree, every episode layout and every
   data matrix of the right width.  Mutual induction over stage / chain. *)
From Coq Require Import List ZArith NArith Bool Arith Lia.
From PK Require Import PyList ListFacts Episodes EpisodesFacts Stage StageEqns.
Import ListNotations.

Set Implicit Arguments.

Section Facts.
Variable T : Type.
Variable O : ops T.
Notation dmat := (dmat T).
Notation stage := (stage T).
Notation chain := (chain T).

Definition dwid (w : nat) (X : dmat) : Prop := wid w (rows X).
Definition dsum (d : dims) : nat := fst d + snd d.

(* ---------- episodes are sub-lists of the matrix *)
Lemma In_rows_of i (X : dmat) r : In r (rows_of i X) -> In r (rows X).
Proof.
  unfold rows_of, rows. intros H. apply in_map_iff in H. destruct H as [[l r'] [<- H]].
  apply filter_In in H. apply in_map_iff. exists (l, r'). split; [reflexivity|apply H].
Qed.

Lemma In_split ep (X : dmat) e r : In e (split ep X) -> In r (snd e) -> In r (rows X).
Proof.
  unfold split. destruct ep; intros He Hr.
  - apply in_map_iff in He. destruct He as [i [<- _]]. cbn [snd] in Hr. eapply In_rows_of; eauto.
  - destruct He as [<-|[]]. exact Hr.
Qed.

Lemma rows_combine ep (eps : episodes T) : rows (combine ep eps) = flat_map (@snd _ _) eps.
Proof.
  unfold rows, combine. induction eps as [|e eps IH]; cbn [flat_map]; [reflexivity|].
  rewrite map_app, IH. f_equal. rewrite map_map. cbn [snd]. apply map_id.
Qed.

Lemma rows_map_episodes ep (g : list (list T) -> list (list T)) (X : dmat) :
  rows (map_episodes ep g X) = flat_map (fun e => g (snd e)) (split ep X).
Proof.
  unfold map_episodes. rewrite rows_combine.
  induction (split ep X) as [|e eps IH]; cbn [map flat_map snd]; [reflexivity|].
  rewrite IH. reflexivity.
Qed.

Lemma dwid_map_episodes ep w w' (g : list (list T) -> list (list T)) (X : dmat) :
  (forall E, wid w E -> wid w' (g E)) -> dwid w X -> dwid w' (map_episodes ep g X).
Proof.
  intros Hg HX. unfold dwid. rewrite rows_map_episodes. apply wid_flat_map.
  intros e He. apply Hg. intros r Hr. apply HX. eapply In_split; eauto.
Qed.

Lemma rows_rowwise (f : list T -> list T) (X : dmat) : rows (rowwise f X) = map f (rows X).
Proof. unfold rows, rowwise. rewrite !map_map. reflexivity. Qed.

Lemma dwid_rowwise w w' (f : list T -> list T) (X : dmat) :
  (forall r, length r = w -> length (f r) = w') -> dwid w X -> dwid w' (rowwise f X).
Proof. intros Hf HX. unfold dwid. rewrite rows_rowwise. eapply wid_map; eauto. Qed.

(* ---------- delay *)
Lemma wid_hconcat w (blocks : list (list (list T))) :
  (forall b, In b blocks -> wid w b) -> wid (length blocks * w) (hconcat blocks).
Proof.
  induction blocks as [|b bs IH]; intros H.
  - apply wid_nil.
  - destruct bs as [|b' bs].
    + cbn [hconcat length]. rewrite Nat.mul_1_l. apply H. left; reflexivity.
    + change (hconcat (b :: b' :: bs)) with (hstack b (hconcat (b' :: bs))).
      change (length (b :: b' :: bs) * w) with (w + length (b' :: bs) * w).
      apply wid_hstack; [apply H; left; reflexivity|].
      apply IH. intros x Hx. apply H. right; exact Hx.
Qed.

Lemma wid_delay w n (E : list (list T)) : wid w E -> wid ((n + 1) * w) (delay n E).
Proof.
  intros HE. unfold delay.
  replace (n + 1) with (length (delay_blocks n E)).
  - apply wid_hconcat. intros b Hb. unfold delay_blocks in Hb. apply in_map_iff in Hb.
    destruct Hb as [i [<- _]]. eapply wid_sub; [|exact HE]. intros r. apply In_pyslice.
  - unfold delay_blocks. rewrite map_length, rev_length, seq_length. reflexivity.
Qed.

Lemma wid_delay_ep ns nu dx du (E : list (list T)) :
  wid (ns + nu) E -> wid (ns * (dx + 1) + nu * (du + 1)) (delay_ep (ns, nu) dx du E).
Proof.
  intros HE. unfold delay_ep. cbn [fst].
  apply wid_hstack.
  - eapply wid_sub; [intros r; apply In_last_rows|].
    rewrite Nat.mul_comm. apply wid_delay.
    eapply wid_map; [|exact HE]. intros r Hr. eapply firstn_length_exact; eauto.
  - eapply wid_sub; [intros r; apply In_last_rows|].
    rewrite Nat.mul_comm. apply wid_delay.
    eapply wid_map; [|exact HE]. intros r Hr. eapply skipn_length_exact; eauto.
Qed.

(* ---------- angle *)
Lemma angle_mask_length feats n : length (angle_mask feats n) = n.
Proof. unfold angle_mask. rewrite map_length, seq_length. reflexivity. Qed.

Lemma angle_row_length (m : list bool) (r : list T) :
  length m = length r -> length (angle_row O m r) = length r + count_true m.
Proof.
  revert r. induction m as [|b m IH]; intros [|x r] H; cbn [length] in H; try discriminate.
  - reflexivity.
  - cbn [angle_row]. rewrite app_length, IH by lia. unfold count_true. cbn [filter].
    destruct b; cbn [length]; lia.
Qed.

Lemma count_true_split ns (m : list bool) :
  count_true m = count_true (firstn ns m) + count_true (skipn ns m).
Proof.
  unfold count_true. rewrite <- app_length, <- filter_app, firstn_skipn. reflexivity.
Qed.

Lemma count_true_le (m : list bool) : count_true m <= length m.
Proof. unfold count_true. induction m as [|b m IH]; cbn [filter length]; [lia|destruct b; cbn [length]; lia]. Qed.

(* ---------- one leaf: width of a transformed row *)
Lemma leaf_row_length (l : leaf T) (d : dims) (r : list T) :
  (match l with LDelay _ _ _ => False | _ => True end) ->
  length r = dsum d -> length (leaf_row O l d r) = dsum (leaf_dims l d).
Proof.
  destruct d as [ns nu]. unfold dsum. cbn [fst snd]. intros Hk Hr.
  destruct l as [powers| | |dx du|id centers|id nf|id|feats uw]; cbn [leaf_row leaf_dims].
  - (* poly *)
    rewrite map_length. unfold poly_order, poly_nso, poly_nuo. cbn [fst snd].
    rewrite !app_length. lia.
  - (* bilinear *)
    unfold bilinear_row. cbn [fst snd]. rewrite !app_length.
    rewrite (@flat_map_length_const _ _ _ _ (length (firstn ns r))) by (intros; apply map_length).
    rewrite (@firstn_length_exact _ ns r nu Hr), (@skipn_length_exact _ ns r nu Hr). lia.
  - (* const *)
    unfold const_row. cbn [fst snd]. rewrite !app_length.
    rewrite (@firstn_length_exact _ ns r nu Hr), (@skipn_length_exact _ ns r nu Hr). cbn [length]. lia.
  - contradiction.
  - (* rbf *)
    rewrite app_length, map_length. destruct (Nat.eqb nu 0); cbn [fst snd]; lia.
  - (* kernel *)
    rewrite app_length, map_length, seq_length. destruct (Nat.eqb nu 0); cbn [fst snd]; lia.
  - (* sklearn *)
    rewrite mapi_length. cbn [fst snd]. exact Hr.
  - (* angle *)
    rewrite angle_row_length by (rewrite angle_mask_length; lia).
    rewrite (count_true_split ns (angle_mask feats (ns + nu))). cbn [fst snd].
    pose proof (count_true_le (firstn ns (angle_mask feats (ns + nu)))) as H1.
    pose proof (count_true_le (skipn ns (angle_mask feats (ns + nu)))) as H2.
    rewrite firstn_length, angle_mask_length in H1. rewrite skipn_length, angle_mask_length in H2.
    lia.
Qed.

Lemma leaf_transform_width (l : leaf T) ep (d : dims) (X : dmat) :
  dwid (dsum d) X -> dwid (dsum (leaf_dims l d)) (leaf_transform O l ep d X).
Proof.
  intros HX. destruct l as [powers| | |dx du|id centers|id nf|id|feats uw];
    try (cbn [leaf_transform]; eapply dwid_rowwise; [|exact HX]; intros r Hr;
         apply leaf_row_length; [exact I|exact Hr]).
  (* delay *)
  cbn [leaf_transform]. destruct d as [ns nu]. unfold dsum in *. cbn [fst snd leaf_dims] in *.
  eapply dwid_map_episodes; [|exact HX]. intros E HE. apply wid_delay_ep. exact HE.
Qed.

(* ---------- split pipeline plumbing *)
Lemma dwid_cols_state ep ns nu (X : dmat) : dwid (ns + nu) X -> dwid ns (cols_state ep ns X).
Proof.
  intros HX. unfold cols_state. eapply dwid_map_episodes; [|exact HX].
  intros E HE. eapply wid_map; [|exact HE]. intros r Hr. eapply firstn_length_exact; eauto.
Qed.

Lemma dwid_cols_input ep ns nu (X : dmat) : dwid (ns + nu) X -> dwid nu (cols_input ep ns X).
Proof.
  intros HX. unfold cols_input. eapply dwid_map_episodes; [|exact HX].
  intros E HE. eapply wid_map; [|exact HE]. intros r Hr. eapply skipn_length_exact; eauto.
Qed.

Lemma dwid_zip_branches ep a b (Ts Tu : dmat) :
  dwid a Ts -> dwid b Tu -> dwid (a + b) (zip_branches ep Ts Tu).
Proof.
  intros Hs Hu. unfold zip_branches, dwid. rewrite rows_combine. apply wid_flat_map.
  intros e He. apply in_map_iff in He. destruct He as [[[i Es] [j Eu]] [<- Hz]].
  cbn [fst snd]. apply In_zip in Hz. destruct Hz as [H1 H2].
  apply wid_hstack.
  - eapply wid_sub; [intros r; apply In_last_rows|]. intros r Hr. apply Hs.
    eapply In_split; [exact H1|exact Hr].
  - eapply wid_sub; [intros r; apply In_last_rows|]. intros r Hr. apply Hu.
    eapply In_split; [exact H2|exact Hr].
Qed.

(* ---------- the theorem, for every stage tree *)
Scheme stage_mut := Induction for Stage.stage Sort Prop
  with chain_mut := Induction for Stage.chain Sort Prop.

Definition width_ok_stage (s : stage) : Prop :=
  forall ep d X, wf s d = true -> dwid (dsum d) X -> dwid (dsum (sdims s d)) (transform O s ep d X).
Definition width_ok_chain (c : chain) : Prop :=
  forall ep d X, cwf c d = true -> dwid (dsum d) X -> dwid (dsum (cdims c d)) (ctransform O c ep d X).

Theorem transform_width : forall s, width_ok_stage s.
Proof.
  apply (stage_mut width_ok_stage width_ok_chain).
  - (* leaf *)
    intros l ep d X _ HX. rewrite transform_leaf, sdims_leaf. apply leaf_transform_width. exact HX.
  - (* split *)
    intros xs IHx us IHu ep [ns nu] X Hwf HX. rewrite wf_split in Hwf. cbn [fst snd] in Hwf.
    apply andb_prop in Hwf. destruct Hwf as [Hwf Hu0].
    apply andb_prop in Hwf. destruct Hwf as [Hwf Hx0].
    apply andb_prop in Hwf. destruct Hwf as [Hwx Hwu].
    apply Nat.eqb_eq in Hx0. apply Nat.eqb_eq in Hu0.
    rewrite transform_split, sdims_split. unfold dsum in *. cbn [fst snd] in *.
    pose proof (IHx ep (ns, 0) (cols_state ep ns X) Hwx) as Hs.
    pose proof (IHu ep (0, nu) (cols_input ep ns X) Hwu) as Hu.
    unfold dsum in Hs, Hu. cbn [fst snd] in Hs, Hu.
    rewrite Hx0 in Hs. rewrite Hu0 in Hu. rewrite !Nat.add_0_r in Hs. rewrite !Nat.add_0_l in Hu.
    apply dwid_zip_branches.
    + apply Hs. eapply dwid_cols_state; exact HX.
    + apply Hu. eapply dwid_cols_input; exact HX.
  - (* pipe *)
    intros c IHc ep d X Hwf HX. rewrite wf_pipe in Hwf. rewrite transform_pipe, sdims_pipe. apply IHc; assumption.
  - (* nil *)
    intros ep d X _ HX. rewrite ctransform_nil, cdims_nil. exact HX.
  - (* cons *)
    intros s IHs c IHc ep d X Hwf HX. rewrite cwf_cons in Hwf. apply andb_prop in Hwf. destruct Hwf as [Hs Hc].
    rewrite ctransform_cons, cdims_cons. apply IHc; [exact Hc|]. apply IHs; assumption.
Qed.

Corollary ctransform_width : forall c, width_ok_chain c.
Proof.
  apply (chain_mut width_ok_stage width_ok_chain).
  - intros l. apply (transform_width (Leaf l)).
  - intros xs _ us _. apply (transform_width (Split xs us)).
  - intros c _. apply (transform_width (Pipe c)).
  - intros ep d X _ HX. rewrite ctransform_nil, cdims_nil. exact HX.
  - intros s _ c IHc ep d X Hwf HX. rewrite cwf_cons in Hwf. apply andb_prop in Hwf. destruct Hwf as [Hs Hc].
    rewrite ctransform_cons, cdims_cons. apply IHc; [exact Hc|]. apply transform_width; assumption.
Qed.

(* ---------- n_samples_in : additive; min_samples = n_samples_in 1 by definition *)
Definition additive_stage (s : stage) : Prop := forall n, samples_in s n = n + (samples_in s 1 - 1).
Definition additive_chain (c : chain) : Prop := forall n, csamples_in c n = n + (csamples_in c 1 - 1).

Definition ge_stage (s : stage) : Prop := forall n, n <= samples_in s n.
Definition ge_chain (c : chain) : Prop := forall n, n <= csamples_in c n.

Lemma samples_in_ge : forall s, ge_stage s.
Proof.
  apply (stage_mut ge_stage ge_chain).
  - intros l n. rewrite samples_in_leaf. destruct l; unfold leaf_samples_in; lia.
  - intros xs IHx us IHu n. rewrite samples_in_split. specialize (IHx n). lia.
  - intros c IHc n. rewrite samples_in_pipe. apply IHc.
  - intros n. rewrite csamples_in_nil. lia.
  - intros s IHs c IHc n. rewrite csamples_in_cons. specialize (IHc n). specialize (IHs (csamples_in c n)). lia.
Qed.

Lemma csamples_in_ge : forall c, ge_chain c.
Proof.
  apply (chain_mut ge_stage ge_chain).
  - intros l. apply (samples_in_ge (Leaf l)).
  - intros xs _ us _. apply (samples_in_ge (Split xs us)).
  - intros c _. apply (samples_in_ge (Pipe c)).
  - intros n. rewrite csamples_in_nil. lia.
  - intros s _ c IHc n. rewrite csamples_in_cons. specialize (IHc n).
    pose proof (samples_in_ge s (csamples_in c n)). lia.
Qed.

Theorem samples_in_additive : forall s, additive_stage s.
Proof.
  apply (stage_mut additive_stage additive_chain).
  - intros l n. rewrite !samples_in_leaf. destruct l; unfold leaf_samples_in; lia.
  - intros xs IHx us IHu n. rewrite !samples_in_split. rewrite (IHx n), (IHu n). lia.
  - intros c IHc n. rewrite !samples_in_pipe. apply IHc.
  - intros n. rewrite !csamples_in_nil. lia.
  - intros s IHs c IHc n. rewrite !csamples_in_cons.
    rewrite (IHs (csamples_in c n)), (IHs (csamples_in c 1)), (IHc n).
    pose proof (csamples_in_ge c 1). lia.
Qed.

Theorem csamples_in_additive : forall c, additive_chain c.
Proof.
  apply (chain_mut additive_stage additive_chain).
  - intros l. apply (samples_in_additive (Leaf l)).
  - intros xs _ us _. apply (samples_in_additive (Split xs us)).
  - intros c _. apply (samples_in_additive (Pipe c)).
  - intros n. rewrite !csamples_in_nil. lia.
  - intros s _ c IHc n. rewrite !csamples_in_cons.
    rewrite (samples_in_additive s (csamples_in c n)), (samples_in_additive s (csamples_in c 1)), (IHc n).
    pose proof (csamples_in_ge c 1). lia.
Qed.

End Facts.
