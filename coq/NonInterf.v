(* C02 — the lifted-state block never depends on the exogenous input.
   Stated on the per-episode specification tf_ep (to which the model's transform is
   tied by EpisodeSem.v) for every stage tree, then lifted to transform. *)
From Coq Require Import List ZArith NArith Bool Arith Lia.
From PK Require Import PyList ListFacts Episodes EpisodesFacts Stage StageEqns StageSpec StageFacts EpisodeSem.
Import ListNotations.

Set Implicit Arguments.

Section NI.
Variable T : Type.
Variable O : ops T.
Notation stage := (stage T).
Notation chain := (chain T).
Notation mat := (list (list T)).

(* widths of the spec (transported from transform through transform_false) *)
Lemma tf_ep_width (s : stage) d (E : mat) :
  wf s d = true -> wid (dsum d) E -> wid (dsum (sdims s d)) (tf_ep O s d E).
Proof.
  intros Hwf HE.
  pose proof (transform_width O s false d (X := map (fun r => (0%N, r)) E) Hwf) as H.
  unfold dwid in H. rewrite (transform_false O s d) in H.
  assert (Hr : rows (map (fun r : list T => (0%N, r)) E) = E).
  { unfold rows. rewrite map_map. cbn [snd]. apply map_id. }
  rewrite Hr in H. apply H. exact HE.
Qed.

Lemma ctf_ep_width (c : chain) d (E : mat) :
  cwf c d = true -> wid (dsum d) E -> wid (dsum (cdims c d)) (ctf_ep O c d E).
Proof.
  intros Hwf HE. apply (tf_ep_width (Pipe c) d); [rewrite wf_pipe; exact Hwf|exact HE].
Qed.

(* ---------- lengths of the outputs depend on the length of the episode only *)
Lemma pyslice_length_only {A} lo hi (l l' : list A) :
  length l = length l' -> length (pyslice lo hi l) = length (pyslice lo hi l').
Proof. intros H. unfold pyslice. rewrite !firstn_length, !skipn_length, H. reflexivity. Qed.

Lemma fold_min_swap a b (l : list nat) :
  Nat.min a (fold_right Nat.min b l) = Nat.min b (fold_right Nat.min a l).
Proof. induction l as [|x l IH]; cbn [fold_right]; lia. Qed.

Lemma hconcat_length_min (blocks : list mat) :
  blocks <> [] ->
  length (hconcat blocks) = fold_right Nat.min (length (hd [] blocks)) (map (@length _) (tl blocks)).
Proof.
  induction blocks as [|b bs IH]; intros Hne; [congruence|].
  destruct bs as [|b' bs].
  - reflexivity.
  - change (hconcat (b :: b' :: bs)) with (hstack b (hconcat (b' :: bs))).
    unfold hstack. rewrite map2_length, IH by discriminate. cbn [hd tl map fold_right].
    apply fold_min_swap.
Qed.

Lemma delay_length_only n (E E' : mat) : length E = length E' -> length (delay n E) = length (delay n E').
Proof.
  intros H. unfold delay.
  assert (Hne : forall F : mat, delay_blocks n F <> []).
  { intros F Hc. apply (f_equal (@length _)) in Hc. unfold delay_blocks in Hc.
    rewrite map_length, rev_length, seq_length in Hc. cbn in Hc. lia. }
  rewrite !hconcat_length_min by apply Hne.
  unfold delay_blocks. rewrite H.
  induction (rev (seq 0 (n + 1))) as [|i l IH]; [reflexivity|].
  cbn [map hd tl]. rewrite (pyslice_length_only _ _ E E' H).
  f_equal. clear IH. induction l as [|j l IHl]; [reflexivity|].
  cbn [map]. rewrite (pyslice_length_only _ _ E E' H), IHl. reflexivity.
Qed.

Definition lenonly_stage (s : stage) : Prop :=
  forall d (E E' : mat), length E = length E' -> length (tf_ep O s d E) = length (tf_ep O s d E').
Definition lenonly_chain (c : chain) : Prop :=
  forall d (E E' : mat), length E = length E' -> length (ctf_ep O c d E) = length (ctf_ep O c d E').

Lemma tf_ep_length_only : forall s, lenonly_stage s.
Proof.
  apply (stage_mut lenonly_stage lenonly_chain).
  - intros l d E E' H. rewrite !tf_ep_leaf.
    destruct l; cbn [leaf_ep]; try (rewrite !map_length; exact H).
    unfold delay_ep. fold (align (delay dx (map (firstn (fst d)) E)) (delay du (map (skipn (fst d)) E))).
    fold (align (delay dx (map (firstn (fst d)) E')) (delay du (map (skipn (fst d)) E'))).
    rewrite !align_length.
    rewrite (delay_length_only dx (map (firstn (fst d)) E) (map (firstn (fst d)) E')) by (rewrite !map_length; exact H).
    rewrite (delay_length_only du (map (skipn (fst d)) E) (map (skipn (fst d)) E')) by (rewrite !map_length; exact H).
    reflexivity.
  - intros xs IHx us IHu d E E' H. rewrite !tf_ep_split, !align_length.
    rewrite (IHx _ (map (firstn (fst d)) E) (map (firstn (fst d)) E')) by (rewrite !map_length; exact H).
    rewrite (IHu _ (map (skipn (fst d)) E) (map (skipn (fst d)) E')) by (rewrite !map_length; exact H).
    reflexivity.
  - intros c IHc d E E' H. rewrite !tf_ep_pipe. apply IHc. exact H.
  - intros d E E' H. exact H.
  - intros s IHs c IHc d E E' H. rewrite !ctf_ep_cons. apply IHc. apply IHs. exact H.
Qed.

Lemma ctf_ep_length_only : forall c, lenonly_chain c.
Proof. intros c d E E' H. apply (tf_ep_length_only (Pipe c) d E E' H). Qed.

(* ---------- leaf-level facts *)
Definition scols (n : nat) (E : mat) : mat := map (firstn n) E.

Lemma map2_tpow_ext (p : list nat) : forall (r r' : list T),
  length r = length r' ->
  (forall k, nth k p 0 <> 0 -> nth k r (op_t0 O) = nth k r' (op_t0 O)) ->
  map2 (tpow O) r p = map2 (tpow O) r' p.
Proof.
  induction p as [|e p IH]; intros r r' Hl Hk.
  - destruct r, r'; reflexivity.
  - destruct r as [|x r], r' as [|x' r']; cbn [length] in Hl; try discriminate; [reflexivity|].
    cbn [map2]. f_equal.
    + destruct e as [|e]; [reflexivity|]. specialize (Hk 0). cbn [nth] in Hk. rewrite Hk by discriminate. reflexivity.
    + apply IH; [lia|]. intros k Hn. apply (Hk (S k)). exact Hn.
Qed.

Lemma nth_firstn_lt {A} (l : list A) n k d : k < n -> nth k (firstn n l) d = nth k l d.
Proof.
  revert l k. induction n as [|n IH]; intros l k H; [lia|].
  destruct l as [|a l]; [destruct k; reflexivity|]. destruct k as [|k]; [reflexivity|].
  cbn [firstn nth]. apply IH. lia.
Qed.

(* a monomial whose input exponents are all zero reads the state columns only *)
Lemma monomial_state ns (p : list nat) (r r' : list T) :
  length r = length r' -> firstn ns r = firstn ns r' ->
  (forall k, ns <= k -> nth k p 0 = 0) ->
  monomial O p r = monomial O p r'.
Proof.
  intros Hl Hf Hz. unfold monomial. f_equal. apply map2_tpow_ext; [exact Hl|].
  intros k Hk. destruct (Nat.lt_ge_cases k ns) as [Hlt|Hge].
  - rewrite <- (nth_firstn_lt r (op_t0 O) Hlt), <- (nth_firstn_lt r' (op_t0 O) Hlt), Hf. reflexivity.
  - exfalso. apply Hk. apply Hz. exact Hge.
Qed.

Lemma find_all_In {A} (q : A -> bool) (l : list A) j d :
  In j (find_all q l) -> j < length l /\ q (nth j l d) = true.
Proof.
  unfold find_all. intros H. apply in_map_iff in H. destruct H as [[j' a] [Hj Hin]]. cbn [fst] in Hj. subst j'.
  apply filter_In in Hin. destruct Hin as [Hin Hq]. cbn [snd] in Hq.
  assert (Hz : forall (l : list A) s j a, In (j, a) (zip (seq s (length l)) l) -> s <= j < s + length l /\ nth (j - s) l d = a).
  { clear. induction l as [|x l IH]; intros s j a H; cbn in H; [contradiction|].
    destruct H as [H|H].
    - inversion H; subst. rewrite Nat.sub_diag. cbn. split; [lia|reflexivity].
    - apply IH in H. destruct H as [H1 H2]. split; [cbn [length]; lia|].
      replace (j - s) with (S (j - S s)) by lia. cbn [nth]. exact H2. }
  apply Hz in Hin. destruct Hin as [H1 H2]. rewrite Nat.sub_0_r in H2. subst a. split; [lia|exact Hq].
Qed.

Lemma list_eqb_nat_eq (l1 l2 : list nat) : list_eqb Nat.eqb l1 l2 = true -> l1 = l2.
Proof.
  revert l2. induction l1 as [|a l1 IH]; intros [|b l2] H; cbn in H; try discriminate; [reflexivity|].
  apply andb_prop in H. destruct H as [H1 H2]. apply Nat.eqb_eq in H1. subst. f_equal. apply IH. exact H2.
Qed.

Lemma nth_map_seq {A} (f : nat -> A) n k d : k < n -> nth k (map f (seq 0 n)) d = f k.
Proof.
  intros H. rewrite (nth_indep _ d (f 0)) by (rewrite map_length, seq_length; exact H).
  rewrite (map_nth f (seq 0 n) 0 k), seq_nth by exact H. reflexivity.
Qed.

Lemma unit_row_nth n i k : nth k (unit_row n i) 0 = if andb (Nat.ltb k n) (Nat.eqb k i) then 1 else 0.
Proof.
  unfold unit_row. destruct (Nat.ltb_spec k n) as [Hlt|Hge]; cbn [andb].
  - rewrite nth_map_seq by exact Hlt. reflexivity.
  - rewrite nth_overflow by (rewrite map_length, seq_length; exact Hge). reflexivity.
Qed.

(* every index placed in the STATE block of a polynomial stage has zero input exponents *)
Lemma poly_state_index_zero (powers : list (list nat)) ns nu j :
  In j (p_orig_states (poly_fit_of powers (ns, nu)) ++ p_other_states (poly_fit_of powers (ns, nu))) ->
  forall k, ns <= k -> nth k (nth j powers []) 0 = 0.
Proof.
  cbn [poly_fit_of p_orig_states p_other_states]. intros Hj k Hk.
  apply in_app_or in Hj. destruct Hj as [Hj|Hj].
  - unfold poly_orig in Hj. apply in_flat_map in Hj. destruct Hj as [i [Hi Hj]].
    apply in_seq in Hi. apply (find_all_In _ _ _ []) in Hj. destruct Hj as [_ Hq].
    unfold row_eqb in Hq. apply list_eqb_nat_eq in Hq. rewrite <- Hq, unit_row_nth.
    destruct (Nat.eqb_spec k i) as [->|_]; [lia|]. rewrite andb_false_r. reflexivity.
  - apply filter_In in Hj. destruct Hj as [Hseq Hnot]. apply in_seq in Hseq.
    (* j is not in all_inputs, otherwise it would be in orig_inputs or other_inputs *)
    destruct (Nat.eq_dec (nth k (nth j powers []) 0) 0) as [|Hne]; [assumption|]. exfalso.
    assert (Hall : In j (poly_all_inputs powers ns)).
    { unfold poly_all_inputs, find_all. apply in_map_iff. exists (j, nth j powers []). split; [reflexivity|].
      apply filter_In. split.
      - clear -Hseq. destruct Hseq as [_ Hj]. cbn in Hj.
        assert (Hz : forall (l : list (list nat)) s j, j < length l -> In (s + j, nth j l []) (zip (seq s (length l)) l)).
        { induction l as [|x l IH]; intros s j' H; cbn [length] in H; [lia|].
          cbn [length seq zip]. destruct j' as [|j']; [rewrite Nat.add_0_r; left; reflexivity|].
          right. replace (s + S j') with (S s + j') by lia. apply IH. lia. }
        apply (Hz powers 0 j Hj).
      - cbn [snd]. apply existsb_exists. exists (nth k (nth j powers []) 0). split.
        + assert (Hlen : k < length (nth j powers [])).
          { destruct (Nat.lt_ge_cases k (length (nth j powers []))); [assumption|].
            rewrite nth_overflow in Hne by assumption. congruence. }
          replace k with (ns + (k - ns)) by lia. rewrite <- nth_skipn. apply nth_In. rewrite skipn_length. lia.
        + destruct (Nat.eqb_spec (nth k (nth j powers []) 0) 0); [contradiction|reflexivity]. }
    apply negb_true_iff in Hnot. unfold mem_nat in Hnot at 1.
    match type of Hnot with
    | existsb ?f ?l = false => assert (Hex : existsb f l = true)
    end.
    { apply existsb_exists. exists j. split; [|apply Nat.eqb_refl].
      apply in_or_app. right. apply in_or_app.
      destruct (mem_nat j (poly_orig powers (ns + nu) ns nu)) eqn:Hm.
      - left. unfold mem_nat in Hm. apply existsb_exists in Hm. destruct Hm as [x [Hx Hjx]].
        apply Nat.eqb_eq in Hjx. subst. exact Hx.
      - right. apply filter_In. split; [exact Hall|]. rewrite Hm. reflexivity. }
    congruence.
Qed.


(* ---------- generic list facts *)
Lemma firstn_app_exact {A} (l1 l2 : list A) n : length l1 = n -> firstn n (l1 ++ l2) = l1.
Proof. intros <-. rewrite firstn_app, Nat.sub_diag, firstn_all. cbn. apply app_nil_r. Qed.

Lemma firstn_app_le {A} (l1 l2 : list A) n : n <= length l1 -> firstn n (l1 ++ l2) = firstn n l1.
Proof. intros H. rewrite firstn_app. replace (n - length l1) with 0 by lia. cbn. apply app_nil_r. Qed.

Lemma firstn_mapi_from {A B} (f : nat -> A -> B) k n (l : list A) :
  firstn n (mapi_from f k l) = mapi_from f k (firstn n l).
Proof.
  revert k l. induction n as [|n IH]; intros k [|a l]; cbn; try reflexivity. rewrite IH. reflexivity.
Qed.

Lemma angle_row_app (m1 m2 : list bool) (r1 r2 : list T) :
  length m1 = length r1 -> angle_row O (m1 ++ m2) (r1 ++ r2) = angle_row O m1 r1 ++ angle_row O m2 r2.
Proof.
  revert r1. induction m1 as [|b m1 IH]; intros [|x r1] H; cbn [length] in H; try discriminate.
  - reflexivity.
  - cbn [app angle_row]. rewrite IH by lia. rewrite app_assoc. reflexivity.
Qed.

Lemma map_pointwise {B} ns w (g : list T -> B) (E : mat) : forall E' : mat,
  (forall r r', length r = w -> length r' = w -> firstn ns r = firstn ns r' -> g r = g r') ->
  wid w E -> wid w E' -> scols ns E = scols ns E' -> map g E = map g E'.
Proof.
  unfold scols. induction E as [|r E IH]; intros [|r' E'] Hg HE HE' H; cbn [map] in *; try discriminate; [reflexivity|].
  inversion H as [[H1 H2]]. f_equal.
  - apply Hg; [apply HE; left; reflexivity|apply HE'; left; reflexivity|exact H1].
  - apply IH; [exact Hg| | |exact H2]; intros x Hx; [apply HE|apply HE']; right; exact Hx.
Qed.

Lemma scols_hstack w (A B : mat) : wid w A -> scols w (hstack A B) = firstn (length B) A.
Proof.
  unfold scols, hstack. revert B. induction A as [|a A IH]; intros [|b B] HA; cbn [map2 map length firstn]; try reflexivity.
  f_equal.
  - apply firstn_app_exact. apply HA. left; reflexivity.
  - apply IH. intros x Hx. apply HA. right; exact Hx.
Qed.

(* ---------- one leaf row: the state block reads the state columns only *)
Lemma leaf_row_state (l : leaf T) ns nu (r r' : list T) :
  (match l with LDelay _ _ _ => False | _ => True end) ->
  length r = ns + nu -> length r' = ns + nu -> firstn ns r = firstn ns r' ->
  firstn (fst (leaf_dims l (ns, nu))) (leaf_row O l (ns, nu) r)
  = firstn (fst (leaf_dims l (ns, nu))) (leaf_row O l (ns, nu) r').
Proof.
  intros Hk Hr Hr' Hf.
  destruct l as [powers| | |dx du|id centers|id nf|id|feats uw]; cbn [leaf_row leaf_dims fst].
  - (* poly *)
    unfold poly_order, poly_nso. rewrite !firstn_map.
    set (f := poly_fit_of powers (ns, nu)).
    assert (Hfo : firstn (length (p_orig_states f) + length (p_other_states f))
                    (p_orig_states f ++ p_other_states f ++ p_orig_inputs f ++ p_other_inputs f)
                  = p_orig_states f ++ p_other_states f)
      by (rewrite app_assoc; apply firstn_app_exact; rewrite app_length; reflexivity).
    rewrite Hfo. apply map_ext_in. intros j Hj. apply monomial_state with (ns := ns); [congruence|exact Hf|].
    apply poly_state_index_zero with (nu := nu). exact Hj.
  - (* bilinear *)
    unfold bilinear_row. rewrite !firstn_app_exact by (eapply firstn_length_exact; eauto). exact Hf.
  - (* const *)
    unfold const_row. rewrite !app_assoc.
    assert (H1 : length (firstn ns r ++ [op_t1 O]) = ns + 1)
      by (rewrite app_length, (@firstn_length_exact _ ns r nu Hr); reflexivity).
    assert (H2 : length (firstn ns r' ++ [op_t1 O]) = ns + 1)
      by (rewrite app_length, (@firstn_length_exact _ ns r' nu Hr'); reflexivity).
    rewrite (firstn_app_exact _ _ H1), (firstn_app_exact _ _ H2), Hf. reflexivity.
  - contradiction.
  - (* rbf *)
    destruct (Nat.eqb_spec nu 0) as [->|Hn]; cbn [fst].
    + rewrite Nat.add_0_r in Hr, Hr'. assert (Heq : r = r').
      { rewrite <- (firstn_all r), <- (firstn_all r'), Hr, Hr'. exact Hf. }
      subst r'. reflexivity.
    + rewrite !firstn_app_le by lia. exact Hf.
  - (* kernel *)
    destruct (Nat.eqb_spec nu 0) as [->|Hn]; cbn [fst].
    + rewrite Nat.add_0_r in Hr, Hr'. assert (Heq : r = r').
      { rewrite <- (firstn_all r), <- (firstn_all r'), Hr, Hr'. exact Hf. }
      subst r'. reflexivity.
    + rewrite !firstn_app_le by lia. exact Hf.
  - (* sklearn: column-wise *)
    unfold mapi. rewrite !firstn_mapi_from, Hf. reflexivity.
  - (* angle *)
    set (m := angle_mask feats (ns + nu)).
    assert (Hm : length m = ns + nu) by apply angle_mask_length.
    assert (Hlm : length (firstn ns m) = ns) by (rewrite firstn_length; lia).
    assert (Hlr : length (firstn ns r) = ns) by (rewrite firstn_length; lia).
    assert (Hlr' : length (firstn ns r') = ns) by (rewrite firstn_length; lia).
    pose proof (count_true_le (firstn ns m)) as Hc. rewrite Hlm in Hc.
    replace (ns - count_true (firstn ns m) + 2 * count_true (firstn ns m))
      with (ns + count_true (firstn ns m)) by lia.
    replace (angle_row O m r) with (angle_row O (firstn ns m ++ skipn ns m) (firstn ns r ++ skipn ns r))
      by (rewrite !firstn_skipn; reflexivity).
    replace (angle_row O m r') with (angle_row O (firstn ns m ++ skipn ns m) (firstn ns r' ++ skipn ns r'))
      by (rewrite !firstn_skipn; reflexivity).
    rewrite !angle_row_app by congruence.
    rewrite !firstn_app_exact by (rewrite angle_row_length by congruence; lia).
    rewrite Hf. reflexivity.
Qed.

(* ---------- the theorem on the per-episode specification *)
Definition ni_stage (s : stage) : Prop :=
  forall d (E E' : mat), wf s d = true -> wid (dsum d) E -> wid (dsum d) E' ->
    length E = length E' -> scols (fst d) E = scols (fst d) E' ->
    scols (fst (sdims s d)) (tf_ep O s d E) = scols (fst (sdims s d)) (tf_ep O s d E').
Definition ni_chain (c : chain) : Prop :=
  forall d (E E' : mat), cwf c d = true -> wid (dsum d) E -> wid (dsum d) E' ->
    length E = length E' -> scols (fst d) E = scols (fst d) E' ->
    scols (fst (cdims c d)) (ctf_ep O c d E) = scols (fst (cdims c d)) (ctf_ep O c d E').

Lemma wid_scols ns nu (E : mat) : wid (ns + nu) E -> wid ns (scols ns E).
Proof. intros H. unfold scols. eapply wid_map; [|exact H]. intros r Hr. eapply firstn_length_exact; eauto. Qed.

Lemma wid_icols ns nu (E : mat) : wid (ns + nu) E -> wid nu (map (skipn ns) E).
Proof. intros H. eapply wid_map; [|exact H]. intros r Hr. eapply skipn_length_exact; eauto. Qed.

Theorem tf_ep_noninterference : forall s, ni_stage s.
Proof.
  apply (stage_mut ni_stage ni_chain).
  - (* leaf *)
    intros l [ns nu] E E' _ HE HE' Hl Hs. unfold dsum in *. cbn [fst snd] in *.
    rewrite sdims_leaf, !tf_ep_leaf.
    destruct l as [powers| | |dx du|id centers|id nf|id|feats uw];
      try (cbn [leaf_ep]; unfold scols; rewrite !map_map;
           apply (@map_pointwise _ ns (ns + nu)); [|exact HE|exact HE'|exact Hs];
           intros r r' Hr Hr' Hf; apply leaf_row_state; [exact I|exact Hr|exact Hr'|exact Hf]).
    (* delay *)
    cbn [leaf_ep leaf_dims fst]. unfold delay_ep. cbn [fst].
    fold (scols ns E). fold (scols ns E'). rewrite <- Hs.
    assert (Hlu : length (delay du (map (skipn ns) E)) = length (delay du (map (skipn ns) E')))
      by (apply delay_length_only; rewrite !map_length; exact Hl).
    rewrite <- Hlu.
    set (n := Nat.min (length (delay dx (scols ns E))) (length (delay du (map (skipn ns) E)))).
    assert (HwA : wid (ns * (dx + 1)) (last_rows n (delay dx (scols ns E)))).
    { eapply wid_sub; [intros r; apply In_last_rows|]. rewrite Nat.mul_comm. apply wid_delay.
      eapply wid_scols; exact HE. }
    rewrite !(scols_hstack _ HwA). f_equal.
    unfold last_rows. destruct (Nat.eqb n 0); [exact Hlu|]. rewrite !skipn_length, Hlu. reflexivity.
  - (* split: the state branch only ever sees the state columns *)
    intros xs _ us _ [ns nu] E E' Hwf HE HE' Hl Hs. unfold dsum in *. cbn [fst snd] in *.
    rewrite wf_split in Hwf. cbn [fst snd] in Hwf.
    apply andb_prop in Hwf. destruct Hwf as [Hwf Hu0].
    apply andb_prop in Hwf. destruct Hwf as [Hwf Hx0].
    apply andb_prop in Hwf. destruct Hwf as [Hwx Hwu].
    apply Nat.eqb_eq in Hx0.
    rewrite sdims_split, !tf_ep_split. cbn [fst snd]. unfold align.
    fold (scols ns E). fold (scols ns E'). rewrite <- Hs.
    assert (Hlu : length (ctf_ep O us (0, nu) (map (skipn ns) E)) = length (ctf_ep O us (0, nu) (map (skipn ns) E')))
      by (apply ctf_ep_length_only; rewrite !map_length; exact Hl).
    rewrite <- Hlu.
    set (n := Nat.min (length (ctf_ep O xs (ns, 0) (scols ns E))) (length (ctf_ep O us (0, nu) (map (skipn ns) E)))).
    assert (HwA : wid (fst (cdims xs (ns, 0))) (last_rows n (ctf_ep O xs (ns, 0) (scols ns E)))).
    { eapply wid_sub; [intros r; apply In_last_rows|].
      pose proof (@ctf_ep_width xs (ns, 0) (scols ns E) Hwx) as Hw. unfold dsum in Hw. cbn [fst snd] in Hw.
      rewrite Hx0, !Nat.add_0_r in Hw. apply Hw. eapply wid_scols; exact HE. }
    rewrite !(scols_hstack _ HwA). f_equal.
    unfold last_rows. destruct (Nat.eqb n 0); [exact Hlu|]. rewrite !skipn_length, Hlu. reflexivity.
  - (* pipe *)
    intros c IHc d E E' Hwf HE HE' Hl Hs. rewrite wf_pipe in Hwf. rewrite sdims_pipe, !tf_ep_pipe.
    apply IHc; assumption.
  - (* nil *)
    intros d E E' _ _ _ _ Hs. exact Hs.
  - (* cons *)
    intros s IHs c IHc d E E' Hwf HE HE' Hl Hs. rewrite cwf_cons in Hwf.
    apply andb_prop in Hwf. destruct Hwf as [Hws Hwc].
    rewrite cdims_cons, !ctf_ep_cons. apply IHc.
    + exact Hwc.
    + apply tf_ep_width; assumption.
    + apply tf_ep_width; assumption.
    + apply tf_ep_length_only. exact Hl.
    + apply IHs; assumption.
Qed.

(* ---------- lifted to the model's transform *)
(* X and X' have the same labels and the same state columns, row by row; the input
   columns are arbitrary *)
Definition same_state (ns : nat) (X X' : dmat T) : Prop :=
  map (fun lr => (fst lr, firstn ns (snd lr))) X = map (fun lr => (fst lr, firstn ns (snd lr))) X'.

Lemma same_state_rows_of ns (X : dmat T) : forall X' i,
  same_state ns X X' ->
  length (rows_of i X) = length (rows_of i X') /\ scols ns (rows_of i X) = scols ns (rows_of i X').
Proof.
  unfold same_state, rows_of, scols. induction X as [|[l r] X IH]; intros [|[l' r'] X'] i H; cbn [map] in H; try discriminate.
  - split; reflexivity.
  - inversion H as [[Hl Hr Ht]]. subst l'. cbn [filter fst]. destruct (IH X' i Ht) as [H1 H2].
    destruct (l =? i)%N; cbn [map snd length]; [|split; assumption].
    split; [f_equal; exact H1|f_equal; [exact Hr|exact H2]].
Qed.

Lemma same_state_labels ns (X X' : dmat T) : same_state ns X X' -> labels X = labels X'.
Proof.
  unfold same_state, labels. intros H. apply (f_equal (map (@fst _ _))) in H. rewrite !map_map in H. exact H.
Qed.

Theorem transform_noninterference (s : stage) d (X X' : dmat T) :
  wf s d = true -> dwid (dsum d) X -> dwid (dsum d) X' ->
  same_state (fst d) X X' -> valid (samples_in s 1) X ->
  forall i, scols (fst (sdims s d)) (rows_of i (transform O s true d X))
          = scols (fst (sdims s d)) (rows_of i (transform O s true d X')).
Proof.
  intros Hwf HX HX' Hss Hv i.
  assert (Hv' : valid (samples_in s 1) X').
  { intros j Hj. rewrite <- (same_state_labels Hss) in Hj.
    destruct (same_state_rows_of j Hss) as [Hl _]. rewrite <- Hl. apply Hv. exact Hj. }
  pose proof (transform_true O s) as H. unfold true_stage in H.
  rewrite (H d X Hv), (H d X' Hv').
  destruct (same_state_rows_of i Hss) as [Hl Hs].
  apply tf_ep_noninterference; try assumption.
  - intros r Hr. apply HX. eapply In_rows_of; exact Hr.
  - intros r Hr. apply HX'. eapply In_rows_of; exact Hr.
Qed.

Theorem transform_noninterference_single (s : stage) d (X X' : dmat T) :
  wf s d = true -> dwid (dsum d) X -> dwid (dsum d) X' ->
  length X = length X' -> scols (fst d) (rows X) = scols (fst d) (rows X') ->
  scols (fst (sdims s d)) (rows (transform O s false d X))
  = scols (fst (sdims s d)) (rows (transform O s false d X')).
Proof.
  intros Hwf HX HX' Hl Hs. rewrite !(transform_false O s d).
  apply tf_ep_noninterference; try assumption. unfold rows. rewrite !map_length. exact Hl.
Qed.

End NI.
