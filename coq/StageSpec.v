(* The per-episode specification of transform: what transforming ONE episode on
   its own gives.  No labels, no splitting, no recombination — readable in a
   minute; the theorems of EpisodeSem.v tie the model's transform to it. *)
From Coq Require Import List ZArith NArith Bool Arith.
From PK Require Import PyList Episodes Stage.
Import ListNotations.
Set Implicit Arguments.

Section Spec.
Variable T : Type.
Variable O : ops T.

Definition leaf_ep (l : leaf T) (d : dims) (E : list (list T)) : list (list T) :=
  match l with
  | LDelay _ dx du => delay_ep d dx du E
  | _ => map (leaf_row O l d) E
  end.

(* trailing-aligned horizontal stack of a state block and an input block *)
Definition align (Es Eu : list (list T)) : list (list T) :=
  let n := Nat.min (length Es) (length Eu) in
  hstack (last_rows n Es) (last_rows n Eu).

Fixpoint tf_ep (s : stage T) (d : dims) (E : list (list T)) : list (list T) :=
  match s with
  | Leaf l => leaf_ep l d E
  | Split xs us =>
      align (ctf_ep xs (fst d, 0) (map (firstn (fst d)) E))
            (ctf_ep us (0, snd d) (map (skipn (fst d)) E))
  | Pipe c => ctf_ep c d E
  end
with ctf_ep (c : chain T) (d : dims) (E : list (list T)) : list (list T) :=
  match c with
  | CNil _ => E
  | CCons s c' => ctf_ep c' (sdims s d) (tf_ep s d E)
  end.

Lemma tf_ep_leaf l d E : tf_ep (Leaf l) d E = leaf_ep l d E. Proof. reflexivity. Qed.
Lemma tf_ep_split xs us d E :
  tf_ep (Split xs us) d E = align (ctf_ep xs (fst d, 0) (map (firstn (fst d)) E))
                                  (ctf_ep us (0, snd d) (map (skipn (fst d)) E)).
Proof. reflexivity. Qed.
Lemma tf_ep_pipe c d E : tf_ep (Pipe c) d E = ctf_ep c d E. Proof. reflexivity. Qed.
Lemma ctf_ep_nil d E : ctf_ep (CNil T) d E = E. Proof. reflexivity. Qed.
Lemma ctf_ep_cons s c d E : ctf_ep (CCons s c) d E = ctf_ep c (sdims s d) (tf_ep s d E).
Proof. reflexivity. Qed.
End Spec.
