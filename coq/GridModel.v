(* C18 — GridCenters.fit (centers.py:117-128):
     linspaces = [np.linspace(lo_i, hi_i, m) for i in range(n)]
     centers_  = np.array(np.meshgrid(linspaces...)).reshape(n, -1).T
   np.meshgrid uses indexing='xy': for n >= 2 the k-th coordinate array has shape
   (|l2|, |l1|, |l3|, ..., |ln|) and holds l_k[i_k] at index (i2, i1, i3, ..., in);
   reshape(n, -1) flattens each in C order (last index fastest) and .T makes one
   row per grid point.  So the centres are enumerated with i2 outermost, then i1,
   then i3 ... in — [grid_centers] below.  Parametric in the cell type; definitions
   and theorems (stdlib only, closed under the global context). *)
From Coq Require Import List Arith Lia Permutation.
Import ListNotations.

Section Grid.
Variable T : Type.

(* Cartesian product in C order: first list outermost, last fastest *)
Fixpoint cart (ls : list (list T)) : list (list T) :=
  match ls with
  | [] => [[]]
  | l :: r => flat_map (fun a => map (cons a) (cart r)) l
  end.

Definition grid_centers (ls : list (list T)) : list (list T) :=
  match ls with
  | l1 :: l2 :: r =>
      flat_map (fun b => flat_map (fun a => map (fun t => a :: b :: t) (cart r)) l1) l2
  | _ => cart ls
  end.

Fixpoint prod_len (ls : list (list T)) : nat :=
  match ls with
  | [] => 1
  | l :: r => length l * prod_len r
  end.

Lemma flat_map_length_const : forall (A B : Type) (f : A -> list B) (l : list A) k,
  (forall a, In a l -> length (f a) = k) -> length (flat_map f l) = length l * k.
Proof.
  intros A B f l k; induction l as [|a l IH]; intros H; cbn [flat_map length]; [reflexivity|].
  rewrite app_length, IH by (intros; apply H; now right).
  rewrite (H a) by now left. lia.
Qed.

Lemma cart_length : forall ls, length (cart ls) = prod_len ls.
Proof.
  induction ls as [|l r IH]; cbn [cart prod_len length]; [reflexivity|].
  rewrite (flat_map_length_const _ _ _ _ (prod_len r)); [reflexivity|].
  intros a _. now rewrite map_length.
Qed.

(* membership: exactly the tuples with one coordinate from each list *)
Lemma cart_spec : forall ls c, In c (cart ls) <-> Forall2 (fun x l => In x l) c ls.
Proof.
  induction ls as [|l r IH]; intros c; cbn [cart].
  - split.
    + intros [H|[]]. subst. constructor.
    + intros H. inversion H. now left.
  - rewrite in_flat_map. split.
    + intros [a [Ha Hc]]. apply in_map_iff in Hc. destruct Hc as [t [Ht Hin]]. subst c.
      constructor; [exact Ha|]. now apply IH.
    + intros H. inversion H as [|x l' c' r' Hx Hc']; subst.
      exists x. split; [exact Hx|]. apply in_map_iff. exists c'. split; [reflexivity|]. now apply IH.
Qed.

Lemma cart_row_length : forall ls c, In c (cart ls) -> length c = length ls.
Proof.
  intros ls c H. apply cart_spec in H. induction H; cbn; auto.
Qed.

Lemma NoDup_map_cons : forall (a : T) (l : list (list T)), NoDup l -> NoDup (map (cons a) l).
Proof.
  intros a l H. induction H as [|x l Hx Hl IH]; cbn; constructor; auto.
  intros Hin. apply in_map_iff in Hin. destruct Hin as [y [Hy Hin]]. inversion Hy; subst. contradiction.
Qed.

Lemma NoDup_app_disjoint : forall (B : Type) (l1 l2 : list B),
  NoDup l1 -> NoDup l2 -> (forall x, In x l1 -> ~ In x l2) -> NoDup (l1 ++ l2).
Proof.
  intros B l1 l2 H1 H2. induction H1 as [|y ys Hy Hys IH]; intros Hd; cbn [app]; [exact H2|].
  constructor.
  - intros Hin. apply in_app_or in Hin. destruct Hin as [Hin|Hin]; [contradiction|].
    apply (Hd y); [now left | exact Hin].
  - apply IH. intros x Hx. apply Hd. now right.
Qed.

Lemma NoDup_flat_map_disjoint : forall (A B : Type) (f : A -> list B) (l : list A),
  NoDup l -> (forall a, In a l -> NoDup (f a)) ->
  (forall a b x, In a l -> In b l -> In x (f a) -> In x (f b) -> a = b) ->
  NoDup (flat_map f l).
Proof.
  intros A B f l Hl; induction Hl as [|a l Ha Hl IH]; intros Hf Hd; cbn [flat_map]; [constructor|].
  apply NoDup_app_disjoint.
  - apply Hf. now left.
  - apply IH; [intros; apply Hf; now right | intros a0 b0 x H1 H2; apply Hd; now right].
  - intros x Hx Hin. apply in_flat_map in Hin. destruct Hin as [b [Hb Hxb]].
    assert (a = b) by (apply (Hd a b x); [now left | now right | exact Hx | exact Hxb]).
    subst b. contradiction.
Qed.

Lemma cart_NoDup : forall ls, Forall (@NoDup T) ls -> NoDup (cart ls).
Proof.
  induction ls as [|l r IH]; intros H; cbn [cart].
  - constructor; [intros []|constructor].
  - inversion H as [|? ? Hl Hr]; subst.
    apply NoDup_flat_map_disjoint; [exact Hl | intros a _; apply NoDup_map_cons; now apply IH |].
    intros a b x _ _ Ha Hb. apply in_map_iff in Ha. apply in_map_iff in Hb.
    destruct Ha as [t [Ht _]]. destruct Hb as [t' [Ht' _]]. subst x. now inversion Ht'.
Qed.

(* exchanging the two outer loops only permutes the enumeration *)
Lemma flat_map_swap : forall (A B C : Type) (f : A -> B -> list C) (la : list A) (lb : list B),
  Permutation (flat_map (fun b => flat_map (fun a => f a b) la) lb)
              (flat_map (fun a => flat_map (fun b => f a b) lb) la).
Proof.
  intros A B C f la. induction la as [|a la IH]; intros lb; cbn [flat_map].
  - induction lb as [|b lb IHb]; cbn [flat_map]; [constructor | exact IHb].
  - rewrite <- (IH lb). clear IH.
    induction lb as [|b lb IHb]; cbn [flat_map app]; [constructor|].
    rewrite <- !app_assoc. apply Permutation_app_head.
    rewrite IHb. rewrite !app_assoc. apply Permutation_app_tail. apply Permutation_app_comm.
Qed.

Lemma cart_two : forall l1 l2 r,
  cart (l1 :: l2 :: r) = flat_map (fun a => flat_map (fun b => map (fun t => a :: b :: t) (cart r)) l2) l1.
Proof.
  intros l1 l2 r. cbn [cart]. apply flat_map_ext. intros a.
  induction l2 as [|b l2 IH]; cbn [flat_map map]; [reflexivity|].
  rewrite map_app, IH, map_map. reflexivity.
Qed.

Theorem grid_centers_perm : forall ls, Permutation (grid_centers ls) (cart ls).
Proof.
  intros [|l1 [|l2 r]]; try apply Permutation_refl.
  unfold grid_centers. rewrite cart_two.
  apply (flat_map_swap _ _ _ (fun a b => map (fun t => a :: b :: t) (cart r)) l1 l2).
Qed.

Theorem grid_centers_spec : forall ls c,
  In c (grid_centers ls) <-> Forall2 (fun x l => In x l) c ls.
Proof.
  intros ls c. rewrite <- cart_spec. split; intros H.
  - eapply Permutation_in; [apply grid_centers_perm | exact H].
  - eapply Permutation_in; [apply Permutation_sym, grid_centers_perm | exact H].
Qed.

Theorem grid_centers_length : forall ls, length (grid_centers ls) = prod_len ls.
Proof.
  intros ls. rewrite (Permutation_length (grid_centers_perm ls)). apply cart_length.
Qed.

Theorem grid_centers_NoDup : forall ls, Forall (@NoDup T) ls -> NoDup (grid_centers ls).
Proof.
  intros ls H. eapply Permutation_NoDup; [apply Permutation_sym, grid_centers_perm|].
  now apply cart_NoDup.
Qed.

Theorem grid_centers_shape : forall ls c, In c (grid_centers ls) -> length c = length ls.
Proof.
  intros ls c H. apply cart_row_length. eapply Permutation_in; [apply grid_centers_perm | exact H].
Qed.

(* all linspaces of GridCenters have the same number m of points: m ^ n centres *)
Lemma prod_len_pow : forall ls m, Forall (fun l => length l = m) ls -> prod_len ls = m ^ length ls.
Proof.
  induction ls as [|l r IH]; intros m H; cbn [prod_len length Nat.pow]; [reflexivity|].
  inversion H; subst. now rewrite (IH (length l)).
Qed.

End Grid.

Arguments cart {T} ls.
Arguments grid_centers {T} ls.
Arguments prod_len {T} ls.
