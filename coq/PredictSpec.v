(* C07 — clean recursive specifications of the two prediction loops of
   KoopmanPipeline.predict_trajectory (Helpers.v: relift_loop, norelift_loop).
   The model loops update pre-allocated zero arrays in place (set_row under
   fold_left); the specifications below build the same arrays row by row from
   the prefix computed so far, with no zeros and no indices to overwrite.
   Definitions only; the equalities with the loops are in PredictFacts.v. *)
From Coq Require Import List ZArith NArith Bool Arith.
From PK Require Import PyList Episodes Stage Helpers.
Import ListNotations.

Set Implicit Arguments.

Section PredictSpec.
Variable T : Type.
Variable O : ops T.
Notation raw := (list (list T)).

(* ------------------------------------------------------------ relift_state=True *)
(* [acc] is the list of states known so far (initial conditions + predictions);
   one step appends the one-step prediction from the last w rows of [acc] and the
   matching rows of U. *)
Definition relift_row (f : fitted T) (coef : raw) (w : nat) (U : raw) (acc : raw) : list T :=
  let k := length acc in
  relift_next O f coef (window w (k - w) acc) (window w (k - w) U).

Fixpoint relift_build (f : fitted T) (coef : raw) (w : nat) (U : raw) (steps : nat) (acc : raw) : raw :=
  match steps with
  | 0 => acc
  | S s => relift_build f coef w U s (acc ++ [relift_row f coef w U acc])
  end.

Definition relift_spec (f : fitted T) (coef : raw) (w : nat) (U : raw) (X0 : raw) : raw :=
  relift_build f coef w U (length U - w) X0.

(* ------------------------------------------------------------ relift_state=False *)
(* lifted input number k: lift_input of rows k .. k+w-1 of [X ; U], last row *)
Definition nr_ups (f : fitted T) (w : nat) (U : raw) (X : raw) (k : nat) : list T :=
  last_row (lift_input O f (Some false) (hstack (window w k X) (window w k U))).

(* one full step (the iterations with k < n_steps_i): with j = number of lifted
   inputs computed so far,
     upsilon_j     from X[j .. j+w-1], U[j .. j+w-1]
     theta_{j+1} = [theta_j, upsilon_j] @ coef
     x_{j+w}     = last row of retract_state(theta_{j+1})                      *)
Definition nr_step (f : fitted T) (coef : raw) (w : nat) (U : raw) (st : nr_state T) : nr_state T :=
  let j := length (nr_Ups st) in
  let ups := nr_ups f w U (nr_X st) j in
  let th := kstep O f coef (nth j (nr_Theta st) []) ups in
  let x := last_row (retract_state O f (Some false) [th]) in
  {| nr_X := nr_X st ++ [x]; nr_Theta := nr_Theta st ++ [th]; nr_Ups := nr_Ups st ++ [ups] |}.

Fixpoint nr_build (f : fitted T) (coef : raw) (w : nat) (U : raw) (steps : nat) (st : nr_state T) : nr_state T :=
  match steps with
  | 0 => st
  | S s => nr_build f coef w U s (nr_step f coef w U st)
  end.

Definition nr_init (f : fitted T) (X0 : raw) : nr_state T :=
  {| nr_X := X0; nr_Theta := firstn 1 (lift_state O f (Some false) X0); nr_Ups := [] |}.

(* n - w full steps, then the last iteration (k = n_steps_i) which only lifts the
   last input *)
Definition nr_spec (f : fitted T) (coef : raw) (w : nat) (U : raw) (X0 : raw) : nr_state T :=
  let st := nr_build f coef w U (length U - w) (nr_init f X0) in
  {| nr_X := nr_X st; nr_Theta := nr_Theta st;
     nr_Ups := nr_Ups st ++ [nr_ups f w U (nr_X st) (length (nr_Ups st))] |}.

(* ------------------------------------------------------------ episodes *)
(* the two raw matrices the one-argument call form of predict_trajectory is
   equivalent to: initial conditions (first w rows of each episode, state
   columns) and inputs (all rows, input columns) *)
Definition ic_raw (c : bool) (w ns : nat) (X : raw) : raw :=
  to_raw O c (map_episodes c (fun E => map (firstn ns) (firstn w E)) (of_raw O c X)).
Definition input_raw (c : bool) (ns : nat) (X : raw) : raw :=
  to_raw O c (map_episodes c (map (skipn ns)) (of_raw O c X)).

End PredictSpec.
