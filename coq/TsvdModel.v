(* C14 — the rank-selection rule of pykoop/tsvd.py (Tsvd.fit, lines 142-161) on the
   list of singular values returned by the economy SVD, over any totally ordered type. *)
From Coq Require Import List Bool Arith Lia.
From PK Require Import PyList.
Import ListNotations.
Set Implicit Arguments.

Section Tsvd.
Variable Sv : Type.
Variable ltb : Sv -> Sv -> bool.          (* strict order on singular values / cutoffs *)

Inductive truncation :=
| Economy
| Rank (r : nat)
| Cutoff (c : Sv)
| Oracle (r : nat).      (* known_noise / unknown_noise: rank chosen by optht (an oracle) *)

(* rank = np.max(np.where(sig > cutoff)) + 1, or 0 when nothing exceeds the cutoff *)
Definition cutoff_rank (c : Sv) (sig : list Sv) : nat :=
  match find_all (fun s => ltb c s) sig with
  | [] => 0
  | i :: rest => fold_left Nat.max rest i + 1
  end.

Definition rank_rule (tr : truncation) (sig : list Sv) : nat :=
  match tr with
  | Economy => length sig
  | Rank r => r
  | Cutoff c => cutoff_rank c sig
  | Oracle r => r
  end.

(* the three factors are sliced with the same rank: Q[:, :rank], sig[:rank], Z[:, :rank] *)
Definition truncate {A} (tr : truncation) (sig : list Sv) (l : list A) : list A :=
  firstn (rank_rule tr sig) l.
Definition retained (tr : truncation) (sig : list Sv) : list Sv := truncate tr sig sig.
Definition discarded (tr : truncation) (sig : list Sv) : list Sv := skipn (rank_rule tr sig) sig.
End Tsvd.
