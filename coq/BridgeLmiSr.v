(* Bridge for the spectral-radius LMIs (C09): the blocks that LmiEdmdSpectralRadiusConstr / LmiDmdcSpectralRadiusConstr hand
   to the solver in both sub-problems, as REGENERATED from the source by tools/gen_lmi_sr.py (Gen/LmiSrGen.v), are the block
   [[rho P, A^T P], [P^T A, rho P]] of C09_block_is_quadratic_form with A the state block of the Koopman matrix
   (problem A writes the diagonal as rho (P + P^T) / 2: equal for the symmetric P it is given, 2 invertible). *)
From mathcomp Require Import all_ssreflect all_algebra.
From PK.Gen Require Import LmiSrGen.
Set Implicit Arguments.
Unset Strict Implicit.
Import GRing.Theory.
Local Open Scope ring_scope.

Section BridgeLmi.
Variable F : fieldType.
Variables (p q : nat).

Definition lyap_block (rho : F) (P A : 'M[F]_p) : 'M[F]_(p + p) :=
  block_mx (rho *: P) (A^T *m P) (P^T *m A) (rho *: P).

Lemma half_sym (rho : F) (P : 'M[F]_p) : 2%:R != 0 :> F -> P^T = P -> 2%:R^-1 *: (rho *: (P + P^T)) = rho *: P.
Proof.
  move=> n2 sP. rewrite sP -mulr2n -scaler_nat !scalerA. congr (_ *: _).
  by rewrite mulrC -mulrA mulfV // mulr1.
Qed.

Theorem gen_sr_edmd_b_model (rho : F) (P : 'M[F]_p) (U : 'M[F]_(p, p + q)) :
  gen_sr_edmd_b rho P U = lyap_block rho P (lsubmx U).
Proof. by []. Qed.

Theorem gen_sr_dmdc_b_model (rho : F) (P : 'M[F]_p) (U : 'M[F]_(p, p + q)) :
  gen_sr_dmdc_b rho P U = lyap_block rho P (lsubmx U).
Proof. by []. Qed.

Theorem gen_sr_edmd_a_model (rho : F) (P : 'M[F]_p) (U : 'M[F]_(p, p + q)) :
  2%:R != 0 :> F -> P^T = P -> gen_sr_edmd_a rho P U = lyap_block rho P (lsubmx U).
Proof. by move=> n2 sP; rewrite /gen_sr_edmd_a /lyap_block !half_sym. Qed.

Theorem gen_sr_dmdc_a_model (rho : F) (P : 'M[F]_p) (U : 'M[F]_(p, p + q)) :
  2%:R != 0 :> F -> P^T = P -> gen_sr_dmdc_a rho P U = lyap_block rho P (lsubmx U).
Proof. by move=> n2 sP; rewrite /gen_sr_dmdc_a /lyap_block !half_sym. Qed.

End BridgeLmi.
