(* C07 — theorems about KoopmanPipeline.predict_trajectory as modelled in
   Helpers.v (relift_loop, norelift_loop, predict_ep, predict_trajectory).
   For every fitted estimator, Koopman matrix, window length, input sequence and
   initial condition. *)
From Coq Require Import List ZArith NArith Bool Arith Lia.
From PK Require Import PyList ListFacts Episodes EpisodesFacts Stage StageSpec StageFacts EpisodeSem Helpers PredictSpec PredictList.
Import ListNotations.

Set Implicit Arguments.

Section PF.
Variable T : Type.
Variable O : ops T.
Notation raw := (list (list T)).
Notation t0 := (op_t0 O).

(* ================================================================== (a) relift loop *)
Section Relift.
Variable f : fitted T.
Variable coef : raw.
Variable w : nat.
Variable U : raw.

Notation build := (relift_build O f coef w U).
Notation rrow := (relift_row O f coef w U).

Let step (X : raw) (k : nat) : raw :=
  set_row k (relift_next O f coef (window w (k - w) X) (window w (k - w) U)) X.

(* Loop invariant.  When the rows < length P are final (= P) and the cnt remaining
   rows are still the initial zeros, running the loop over the remaining indices
   produces exactly the row-by-row construction. *)
Lemma relift_fold_invariant (z : list T) : forall cnt (P : raw),
  w <= length P ->
  fold_left step (seq (length P) cnt) (P ++ repeat z cnt) = build cnt P.
Proof.
  induction cnt as [|cnt IH]; intros P Hw.
  - cbn [seq fold_left repeat relift_build]. apply app_nil_r.
  - cbn [seq fold_left relift_build]. rewrite repeat_S.
    assert (Hs : step (P ++ z :: repeat z cnt) (length P) = (P ++ [rrow P]) ++ repeat z cnt).
    { unfold step. rewrite window_app_le by lia.
      rewrite set_row_app_snoc by reflexivity. reflexivity. }
    rewrite Hs.
    replace (S (length P)) with (length (P ++ [rrow P])) by (rewrite app_length; cbn [length]; lia).
    apply IH. rewrite app_length. lia.
Qed.

(* the in-place loop IS the recursive specification *)
Theorem relift_loop_spec (X0 : raw) :
  length X0 = w -> relift_loop O f coef w U X0 = relift_spec O f coef w U X0.
Proof.
  intros H. unfold relift_loop, relift_spec.
  pose proof (@relift_fold_invariant (repeat t0 (fst (f_dims f))) (length U - w) X0) as HI.
  rewrite H in HI. apply HI. lia.
Qed.

(* ---- facts about the specification *)
Lemma relift_build_length : forall cnt (P : raw), length (build cnt P) = length P + cnt.
Proof.
  induction cnt as [|cnt IH]; intros P; cbn [relift_build]; [lia|].
  rewrite IH, app_length. cbn [length]. lia.
Qed.

Lemma relift_build_prefix : forall cnt (P : raw), exists tail, build cnt P = P ++ tail.
Proof.
  induction cnt as [|cnt IH]; intros P; cbn [relift_build].
  - exists []. symmetry. apply app_nil_r.
  - destruct (IH (P ++ [rrow P])) as [tail Ht]. exists ([rrow P] ++ tail).
    rewrite Ht, <- app_assoc. reflexivity.
Qed.

Lemma relift_build_firstn cnt (P : raw) : firstn (length P) (build cnt P) = P.
Proof.
  destruct (relift_build_prefix cnt P) as [tail ->]. apply firstn_app_exact'. reflexivity.
Qed.

Lemma relift_build_nth : forall cnt (P : raw) k,
  w <= length P -> length P <= k < length P + cnt ->
  nth k (build cnt P) [] =
  relift_next O f coef (window w (k - w) (build cnt P)) (window w (k - w) U).
Proof.
  induction cnt as [|cnt IH]; intros P k Hw Hk; [lia|].
  cbn [relift_build].
  destruct (Nat.eq_dec k (length P)) as [->|Hne].
  - destruct (relift_build_prefix cnt (P ++ [rrow P])) as [tail ->].
    rewrite <- !app_assoc. cbn [app].
    rewrite nth_app_exact by reflexivity.
    rewrite window_app_le by lia. reflexivity.
  - apply IH; rewrite app_length; cbn [length]; lia.
Qed.

End Relift.

(* ---- the statements of the task for the loop itself *)
Theorem relift_loop_length (f : fitted T) (coef : raw) w (U X0 : raw) :
  length X0 = w -> w <= length U -> length (relift_loop O f coef w U X0) = length U.
Proof.
  intros H Hle. rewrite relift_loop_spec by exact H. unfold relift_spec.
  rewrite relift_build_length. lia.
Qed.

Theorem relift_loop_ic (f : fitted T) (coef : raw) w (U X0 : raw) :
  length X0 = w -> firstn w (relift_loop O f coef w U X0) = X0.
Proof.
  intros H. rewrite relift_loop_spec by exact H. unfold relift_spec.
  rewrite <- H at 1. apply relift_build_firstn.
Qed.

Theorem relift_loop_step (f : fitted T) (coef : raw) w (U X0 : raw) k :
  length X0 = w -> w <= k < length U ->
  nth k (relift_loop O f coef w U X0) [] =
  relift_next O f coef (window w (k - w) (relift_loop O f coef w U X0)) (window w (k - w) U).
Proof.
  intros H Hk. rewrite relift_loop_spec by exact H. unfold relift_spec.
  apply relift_build_nth; lia.
Qed.

(* ================================================================== (b) no-relift loop *)
Section NoRelift.
Variable f : fitted T.
Variable coef : raw.
Variable w : nat.
Variable U : raw.

Notation nbuild := (nr_build O f coef w U).
Notation nstep := (nr_step O f coef w U).
Notation ups_of := (nr_ups O f w U).

(* the body of the model loop, with the bound m of "if k < n_steps_i" explicit *)
Let body (m : nat) (st : nr_state T) (k : nat) : nr_state T :=
  let Xw := window w (k - 1) (nr_X st) in
  let Uw := window w (k - 1) U in
  let ups := last_row (lift_input O f (Some false) (hstack Xw Uw)) in
  let Ups' := set_row (k - 1) ups (nr_Ups st) in
  if Nat.ltb k m then
    let th := kstep O f coef (nth (k - 1) (nr_Theta st) []) ups in
    let Theta' := set_row k th (nr_Theta st) in
    let x := last_row (retract_state O f (Some false) [th]) in
    {| nr_X := set_row (k + w - 1) x (nr_X st); nr_Theta := Theta'; nr_Ups := Ups' |}
  else {| nr_X := nr_X st; nr_Theta := nr_Theta st; nr_Ups := Ups' |}.

(* shape of an accumulator: j lifted inputs, j+1 lifted states, w+j states *)
Definition nr_ok (st : nr_state T) : Prop :=
  length (nr_Theta st) = S (length (nr_Ups st)) /\ length (nr_X st) = w + length (nr_Ups st).

Lemma nr_step_ok st : nr_ok st -> nr_ok (nstep st).
Proof.
  intros [H1 H2]. unfold nr_ok, nr_step. cbn [nr_X nr_Theta nr_Ups].
  rewrite !app_length. cbn [length]. lia.
Qed.

Lemma nr_step_Ups_length st : length (nr_Ups (nstep st)) = S (length (nr_Ups st)).
Proof. unfold nr_step. cbn [nr_Ups]. rewrite app_length. cbn [length]. lia. Qed.

Lemma nr_build_ok : forall cnt st, nr_ok st -> nr_ok (nbuild cnt st).
Proof.
  induction cnt as [|cnt IH]; intros st H; cbn [nr_build]; [exact H|].
  apply IH, nr_step_ok, H.
Qed.

Lemma nr_build_Ups_length : forall cnt st, length (nr_Ups (nbuild cnt st)) = length (nr_Ups st) + cnt.
Proof.
  induction cnt as [|cnt IH]; intros st; cbn [nr_build]; [lia|].
  rewrite IH, nr_step_Ups_length. lia.
Qed.

(* Loop invariant: the first j iterations are done (accumulator st, all of shape
   nr_ok), the next cnt rows of each array are still zeros, RX / RT / RU are the
   untouched remainders.  Running cnt more "full" iterations (all with k < m)
   equals cnt steps of the specification, remainders untouched. *)
Lemma nr_fold_invariant (m : nat) (zx zt zu : list T) (RX RT RU : raw) :
  forall cnt st,
  nr_ok st -> length (nr_Ups st) + cnt < m ->
  fold_left (body m) (seq (S (length (nr_Ups st))) cnt)
    {| nr_X := nr_X st ++ repeat zx cnt ++ RX;
       nr_Theta := nr_Theta st ++ repeat zt cnt ++ RT;
       nr_Ups := nr_Ups st ++ repeat zu cnt ++ RU |}
  = let st' := nbuild cnt st in
    {| nr_X := nr_X st' ++ RX; nr_Theta := nr_Theta st' ++ RT; nr_Ups := nr_Ups st' ++ RU |}.
Proof.
  induction cnt as [|cnt IH]; intros st Hok Hm.
  - cbn [seq fold_left repeat nr_build app]. reflexivity.
  - cbn [seq fold_left nr_build]. rewrite !repeat_S. cbn [app].
    destruct Hok as [HT HX].
    set (j := length (nr_Ups st)) in *.
    assert (Hb : body m {| nr_X := nr_X st ++ zx :: repeat zx cnt ++ RX;
                           nr_Theta := nr_Theta st ++ zt :: repeat zt cnt ++ RT;
                           nr_Ups := nr_Ups st ++ zu :: repeat zu cnt ++ RU |} (S j)
                 = {| nr_X := nr_X (nstep st) ++ repeat zx cnt ++ RX;
                      nr_Theta := nr_Theta (nstep st) ++ repeat zt cnt ++ RT;
                      nr_Ups := nr_Ups (nstep st) ++ repeat zu cnt ++ RU |}).
    { unfold body. cbn [nr_X nr_Theta nr_Ups].
      replace (S j - 1) with j by lia.
      replace (S j + w - 1) with (w + j) by lia.
      destruct (Nat.ltb_spec (S j) m) as [_|Hge]; [|lia].
      rewrite window_app_le by lia.
      rewrite nth_app_lt by lia.
      rewrite (set_row_app_snoc _ zu (nr_Ups st)) by reflexivity.
      rewrite (set_row_app_snoc _ zt (nr_Theta st)) by exact HT.
      rewrite (set_row_app_snoc _ zx (nr_X st)) by exact HX.
      unfold nr_step, nr_ups. cbn [nr_X nr_Theta nr_Ups]. fold j. reflexivity. }
    rewrite Hb.
    replace (S j) with (length (nr_Ups (nstep st))) by apply nr_step_Ups_length.
    apply IH.
    + apply nr_step_ok. split; assumption.
    + rewrite nr_step_Ups_length. fold j. lia.
Qed.

(* the in-place loop IS the recursive specification, provided lift_state returns at
   least one row for the initial condition (otherwise the model's Theta array is one
   row short; in the implementation the assignment Theta_i[[0], :] = ... raises) *)
Theorem norelift_loop_spec (X0 : raw) :
  length X0 = w -> lift_state O f (Some false) X0 <> [] ->
  norelift_loop O f coef w U X0 = nr_spec O f coef w U X0.
Proof.
  intros HX0 Hl. unfold norelift_loop, nr_spec.
  set (n := length U). set (m := n - w + 1).
  change (fold_left _ (seq 1 m) ?I) with (fold_left (body m) (seq 1 m) I).
  replace (m - 1) with (n - w) by lia.
  assert (Hseq : seq 1 m = seq 1 (n - w) ++ [m]).
  { unfold m. rewrite seq_app. cbn [seq]. f_equal. f_equal. lia. }
  assert (Hrep : forall z : list T, repeat z m = repeat z (n - w) ++ [z]).
  { intros z. unfold m. rewrite repeat_app. reflexivity. }
  rewrite Hseq, fold_left_app, Hrep.
  assert (Hok : nr_ok (nr_init O f X0)).
  { unfold nr_ok, nr_init. cbn [nr_X nr_Theta nr_Ups length].
    split; [|lia]. destruct (lift_state O f (Some false) X0); [congruence|reflexivity]. }
  pose proof (@nr_fold_invariant m (repeat t0 (fst (f_dims f))) (repeat t0 (fst (f_out f)))
                (repeat t0 (snd (f_out f))) [] [] [repeat t0 (snd (f_out f))]
                (n - w) (nr_init O f X0) Hok) as HI.
  cbn [nr_init nr_X nr_Theta nr_Ups length] in HI.
  rewrite !app_nil_r in HI. cbn [app] in HI.
  rewrite HI by lia. clear HI.
  set (st := nbuild (n - w) (nr_init O f X0)).
  assert (Hst : nr_ok st) by (apply nr_build_ok, Hok).
  assert (HL : length (nr_Ups st) = n - w).
  { unfold st. rewrite nr_build_Ups_length. reflexivity. }
  cbn [fold_left]. unfold body at 1. cbn [nr_X nr_Theta nr_Ups repeat].
  rewrite Nat.ltb_irrefl.
  replace (m - 1) with (length (nr_Ups st)) by lia.
  rewrite (set_row_app_exact _ (repeat t0 (snd (f_out f))) (nr_Ups st) []) by reflexivity.
  unfold nr_ups. reflexivity.
Qed.

(* ---- facts about the specification *)
Lemma nr_build_prefix : forall cnt st, exists tx tt tu,
  nr_X (nbuild cnt st) = nr_X st ++ tx /\ nr_Theta (nbuild cnt st) = nr_Theta st ++ tt
  /\ nr_Ups (nbuild cnt st) = nr_Ups st ++ tu.
Proof.
  induction cnt as [|cnt IH]; intros st; cbn [nr_build].
  - exists [], [], []. rewrite !app_nil_r. auto.
  - destruct (IH (nstep st)) as [tx [tt [tu [H1 [H2 H3]]]]].
    unfold nr_step in H1, H2, H3. cbn [nr_X nr_Theta nr_Ups] in H1, H2, H3.
    rewrite <- app_assoc in H1, H2, H3.
    eexists _, _, _. split; [exact H1|split; [exact H2|exact H3]].
Qed.

(* every row written by step number k of the specification satisfies, in the FINAL
   arrays, the defining equations of the prediction *)
Lemma nr_build_point : forall cnt st k,
  nr_ok st -> length (nr_Ups st) <= k < length (nr_Ups st) + cnt ->
  let F := nbuild cnt st in
  nth k (nr_Ups F) [] = ups_of (nr_X F) k
  /\ nth (S k) (nr_Theta F) [] = kstep O f coef (nth k (nr_Theta F) []) (nth k (nr_Ups F) [])
  /\ nth (k + w) (nr_X F) [] = last_row (retract_state O f (Some false) [nth (S k) (nr_Theta F) []]).
Proof.
  induction cnt as [|cnt IH]; intros st k Hok Hk; [lia|].
  cbn [nr_build].
  destruct (Nat.eq_dec k (length (nr_Ups st))) as [->|Hne].
  - cbn zeta. destruct (nr_build_prefix cnt (nstep st)) as [tx [tt [tu [H1 [H2 H3]]]]].
    rewrite H1, H2, H3. clear H1 H2 H3.
    destruct Hok as [HT HX].
    unfold nr_step. cbn [nr_X nr_Theta nr_Ups]. rewrite <- !app_assoc. cbn [app].
    set (j := length (nr_Ups st)) in *.
    rewrite (nth_app_exact (nr_Ups st) tu _ [] (k:=j)) by reflexivity.
    rewrite (nth_app_exact (nr_Theta st) tt _ [] (k:=S j)) by exact HT.
    rewrite (nth_app_exact (nr_X st) tx _ [] (k:=j + w)) by lia.
    rewrite (nth_app_lt (nr_Theta st) _ [] (k:=j)) by lia.
    unfold nr_ups. rewrite window_app_le by lia.
    repeat split; reflexivity.
  - apply IH; [apply nr_step_ok, Hok|]. rewrite nr_step_Ups_length. lia.
Qed.

(* ---- facts that hold for the loop unconditionally (pure array bookkeeping) *)
Lemma body_lengths m st k :
  length (nr_X (body m st k)) = length (nr_X st)
  /\ length (nr_Theta (body m st k)) = length (nr_Theta st)
  /\ length (nr_Ups (body m st k)) = length (nr_Ups st).
Proof.
  unfold body. destruct (Nat.ltb k m); cbn [nr_X nr_Theta nr_Ups]; rewrite ?set_row_length; auto.
Qed.

Lemma fold_body_lengths m : forall l st,
  length (nr_X (fold_left (body m) l st)) = length (nr_X st)
  /\ length (nr_Theta (fold_left (body m) l st)) = length (nr_Theta st)
  /\ length (nr_Ups (fold_left (body m) l st)) = length (nr_Ups st).
Proof.
  induction l as [|k l IH]; intros st; cbn [fold_left]; [auto|].
  destruct (IH (body m st k)) as [H1 [H2 H3]]. destruct (body_lengths m st k) as [G1 [G2 G3]].
  rewrite H1, H2, H3. auto.
Qed.

Lemma fold_body_firstn m : forall l st,
  (forall k, In k l -> 1 <= k) ->
  firstn w (nr_X (fold_left (body m) l st)) = firstn w (nr_X st).
Proof.
  induction l as [|k l IH]; intros st Hl; cbn [fold_left]; [reflexivity|].
  rewrite IH by (intros k' Hk'; apply Hl; right; exact Hk').
  unfold body. destruct (Nat.ltb k m); cbn [nr_X]; [|reflexivity].
  apply firstn_set_row. specialize (Hl k (or_introl eq_refl)). lia.
Qed.

(* ---- the lifted inputs, unconditionally: an invariant that does not mention Theta
   (so it also covers estimators whose lift_state returns no row for X0) *)
Definition ups_inv (nw : nat) (zx zu : list T) (j : nat) (st : nr_state T) : Prop :=
  exists Xa Upa,
    nr_X st = Xa ++ repeat zx (nw - j) /\ length Xa = w + j
    /\ nr_Ups st = Upa ++ repeat zu (nw - j) ++ [zu] /\ length Upa = j
    /\ forall k, k < j -> nth k Upa [] = ups_of Xa k.

Lemma ups_inv_fold (nw : nat) (zx zu : list T) : forall cnt j st,
  j + cnt = nw -> ups_inv nw zx zu j st ->
  ups_inv nw zx zu nw (fold_left (body (nw + 1)) (seq (S j) cnt) st).
Proof.
  induction cnt as [|cnt IH]; intros j st Hj Hinv.
  - cbn [seq fold_left]. assert (j = nw) as -> by lia. exact Hinv.
  - cbn [seq fold_left]. apply IH; [lia|].
    destruct Hinv as [Xa [Upa [HX [HXl [HU [HUl Hpt]]]]]].
    replace (nw - j) with (S (nw - S j)) in HX, HU by lia.
    rewrite repeat_S in HX, HU. cbn [app] in HU.
    unfold body. destruct (Nat.ltb_spec (S j) (nw + 1)) as [_|Hge]; [|lia].
    replace (S j - 1) with j by lia. replace (S j + w - 1) with (w + j) by lia.
    rewrite HX, HU. rewrite window_app_le by lia.
    rewrite (set_row_app_snoc _ zu Upa) by exact HUl.
    rewrite (set_row_app_snoc _ zx Xa) by exact HXl.
    cbn [nr_X nr_Theta nr_Ups].
    eexists _, _. split; [reflexivity|]. split; [rewrite app_length; cbn [length]; lia|].
    split; [rewrite <- app_assoc; reflexivity|]. split; [rewrite app_length; cbn [length]; lia|].
    intros k Hk. unfold nr_ups. rewrite window_app_le by lia.
    destruct (Nat.eq_dec k j) as [->|Hne].
    + rewrite nth_app_exact by exact HUl. reflexivity.
    + rewrite nth_app_lt by lia. apply Hpt. lia.
Qed.

(* upsilon[k] is lifted from the retracted states and the true inputs of window k *)
Theorem norelift_loop_ups (X0 : raw) k :
  length X0 = w -> k < length U - w + 1 ->
  let st := norelift_loop O f coef w U X0 in
  nth k (nr_Ups st) [] =
  last_row (lift_input O f (Some false) (hstack (window w k (nr_X st)) (window w k U))).
Proof.
  intros HX0 Hk. cbn zeta. unfold norelift_loop.
  set (nw := length U - w) in *.
  change (fold_left _ (seq 1 (nw + 1)) ?I) with (fold_left (body (nw + 1)) (seq 1 (nw + 1)) I).
  replace (nw + 1 - 1) with nw by lia.
  rewrite seq_app, fold_left_app.
  match goal with |- context [fold_left (body (nw + 1)) (seq 1 nw) ?I] => set (init := I) end.
  assert (Hinit : ups_inv nw (repeat t0 (fst (f_dims f))) (repeat t0 (snd (f_out f))) 0 init).
  { exists X0, []. unfold init. cbn [nr_X nr_Ups app length].
    rewrite Nat.sub_0_r, repeat_app. cbn [repeat].
    repeat split; [lia|]. intros k' Hk'. lia. }
  pose proof (@ups_inv_fold nw _ _ nw 0 init (eq_refl _) Hinit) as [Xa [Upa [HX [HXl [HU [HUl Hpt]]]]]].
  rewrite Nat.sub_diag in HX, HU. cbn [repeat app] in HX, HU. rewrite app_nil_r in HX.
  cbn [seq fold_left]. unfold body at 1 3. replace (1 + nw) with (nw + 1) by lia.
  rewrite Nat.ltb_irrefl. cbn [nr_X nr_Ups].
  replace (nw + 1 - 1) with nw by lia.
  rewrite HX, HU. rewrite (set_row_app_exact _ _ Upa []) by exact HUl.
  destruct (Nat.eq_dec k nw) as [->|Hne].
  - rewrite nth_app_exact by exact HUl. reflexivity.
  - rewrite nth_app_lt by lia. apply Hpt. lia.
Qed.

(* ---- the statements of the task for the loop itself *)
(* array sizes and the initial-condition block: no hypothesis on the estimator *)
Theorem norelift_loop_sizes (X0 : raw) :
  length X0 = w -> w <= length U ->
  let st := norelift_loop O f coef w U X0 in
  length (nr_X st) = length U
  /\ length (nr_Ups st) = length U - w + 1
  /\ firstn w (nr_X st) = X0.
Proof.
  intros HX0 Hle. unfold norelift_loop.
  set (m := length U - w + 1).
  change (fold_left _ (seq 1 m) ?I) with (fold_left (body m) (seq 1 m) I).
  cbn zeta.
  match goal with |- context [fold_left (body m) (seq 1 m) ?I] => set (init := I) end.
  destruct (fold_body_lengths m (seq 1 m) init) as [H1 [_ H3]].
  rewrite H1, H3, fold_body_firstn by (intros k Hk; apply in_seq in Hk; lia).
  unfold init. cbn [nr_X nr_Ups]. rewrite app_length, !repeat_length.
  repeat split; [lia|]. apply firstn_app_exact'. exact HX0.
Qed.

(* The three Theta statements below carry the ADDED hypothesis
     lift_state O f (Some false) X0 <> []
   (hence the suffix _partial).  It cannot be dropped: see C07_counterexample_theta at
   the end of this file.  It holds whenever X0 has at least min_samples rows
   (lift_state_nonempty below). *)
Theorem norelift_loop_theta_length_partial (X0 : raw) :
  lift_state O f (Some false) X0 <> [] ->
  length (nr_Theta (norelift_loop O f coef w U X0)) = length U - w + 1.
Proof.
  intros Hl. unfold norelift_loop.
  set (m := length U - w + 1).
  change (fold_left _ (seq 1 m) ?I) with (fold_left (body m) (seq 1 m) I).
  match goal with |- context [fold_left (body m) (seq 1 m) ?I] => set (init := I) end.
  destruct (fold_body_lengths m (seq 1 m) init) as [_ [H2 _]].
  rewrite H2. unfold init. cbn [nr_Theta]. rewrite app_length, repeat_length.
  destruct (lift_state O f (Some false) X0); [congruence|]. cbn [firstn length]. lia.
Qed.

Theorem norelift_loop_theta0_partial (X0 : raw) :
  length X0 = w -> lift_state O f (Some false) X0 <> [] ->
  nth 0 (nr_Theta (norelift_loop O f coef w U X0)) [] = hd [] (lift_state O f (Some false) X0).
Proof.
  intros HX0 Hl. rewrite norelift_loop_spec by assumption. unfold nr_spec. cbn [nr_Theta].
  destruct (nr_build_prefix (length U - w) (nr_init O f X0)) as [tx [tt [tu [_ [H2 _]]]]].
  rewrite H2. unfold nr_init. cbn [nr_Theta].
  destruct (lift_state O f (Some false) X0); [congruence|reflexivity].
Qed.

Lemma nr_init_ok (X0 : raw) :
  length X0 = w -> lift_state O f (Some false) X0 <> [] -> nr_ok (nr_init O f X0).
Proof.
  intros HX0 Hl. unfold nr_ok, nr_init. cbn [nr_X nr_Theta nr_Ups length].
  split; [|lia]. destruct (lift_state O f (Some false) X0); [congruence|reflexivity].
Qed.

(* theta[k+1] = [theta[k], upsilon[k]] @ coef, exactly (no retract / re-lift in between),
   and x[k+w] is the last row of the retraction of theta[k+1] *)
Theorem norelift_loop_step_partial (X0 : raw) k :
  length X0 = w -> lift_state O f (Some false) X0 <> [] -> k + 1 < length U - w + 1 ->
  let st := norelift_loop O f coef w U X0 in
  nth (k + 1) (nr_Theta st) [] = kstep O f coef (nth k (nr_Theta st) []) (nth k (nr_Ups st) [])
  /\ nth (k + w) (nr_X st) [] =
     last_row (retract_state O f (Some false) [nth (k + 1) (nr_Theta st) []]).
Proof.
  intros HX0 Hl Hk. cbn zeta. rewrite norelift_loop_spec by assumption.
  unfold nr_spec. cbn [nr_X nr_Theta nr_Ups].
  pose proof (@nr_init_ok X0 HX0 Hl) as Hok.
  set (F := nbuild (length U - w) (nr_init O f X0)).
  assert (HL : length (nr_Ups F) = length U - w).
  { unfold F. rewrite nr_build_Ups_length. reflexivity. }
  rewrite nth_app_lt by lia.
  destruct (@nr_build_point (length U - w) (nr_init O f X0) k Hok) as [_ [H2 H3]].
  { cbn [nr_init nr_Ups length]. lia. }
  replace (k + 1) with (S k) by lia. split; [exact H2|exact H3].
Qed.

End NoRelift.

(* ================================================================== (c) return modes *)
(* which blocks predict_ep returns in each of the 2 x 2 x 2 modes *)
Theorem predict_ep_modes (f : fitted T) (coef : raw) w (X0 U : raw) :
  let X := relift_loop O f coef w U X0 in
  let st := norelift_loop O f coef w U X0 in
  predict_ep O f coef w true false false X0 U = X
  /\ predict_ep O f coef w true false true X0 U = hstack X U
  /\ predict_ep O f coef w true true false X0 U = lift_state O f (Some false) X
  /\ predict_ep O f coef w true true true X0 U =
       hstack (lift_state O f (Some false) X) (lift_input O f (Some false) (hstack X U))
  /\ predict_ep O f coef w false false false X0 U = nr_X st
  /\ predict_ep O f coef w false false true X0 U = hstack (nr_X st) U
  /\ predict_ep O f coef w false true false X0 U = nr_Theta st
  /\ predict_ep O f coef w false true true X0 U = hstack (nr_Theta st) (nr_Ups st).
Proof. cbn zeta. repeat split; reflexivity. Qed.

(* the state trajectory (return_lifted = false), with or without re-lifting, with or
   without the input block: one row per input sample *)
Theorem predict_ep_length (f : fitted T) (coef : raw) w relift ret_input (X0 U : raw) :
  length X0 = w -> w <= length U ->
  length (predict_ep O f coef w relift false ret_input X0 U) = length U.
Proof.
  intros HX0 Hle. unfold predict_ep.
  destruct (@norelift_loop_sizes f coef w U X0 HX0 Hle) as [HnX _].
  pose proof (@relift_loop_length f coef w U X0 HX0 Hle) as HrX.
  destruct relift, ret_input; rewrite ?hstack_length, ?HnX, ?HrX; lia.
Qed.

(* return_input = true, return_lifted = false: row k is the predicted state row k
   followed by the UNCHANGED input row k *)
Theorem predict_ep_input_rows (f : fitted T) (coef : raw) w relift (X0 U : raw) k :
  length X0 = w -> w <= length U -> k < length U ->
  nth k (predict_ep O f coef w relift false true X0 U) [] =
  nth k (predict_ep O f coef w relift false false X0 U) [] ++ nth k U [].
Proof.
  intros HX0 Hle Hk.
  pose proof (@predict_ep_length f coef w relift false X0 U HX0 Hle) as HL.
  unfold predict_ep in *. destruct relift; apply hstack_nth; lia.
Qed.

(* ... and when the predicted states have the declared width n_states_in, the input
   block is recovered verbatim by dropping that many columns (and the state block by
   keeping them) *)
Theorem predict_ep_input_passthrough (f : fitted T) (coef : raw) w relift (X0 U : raw) :
  length X0 = w -> w <= length U ->
  wid (fst (f_dims f)) (predict_ep O f coef w relift false false X0 U) ->
  map (skipn (fst (f_dims f))) (predict_ep O f coef w relift false true X0 U) = U
  /\ map (firstn (fst (f_dims f))) (predict_ep O f coef w relift false true X0 U)
     = predict_ep O f coef w relift false false X0 U.
Proof.
  intros HX0 Hle Hw.
  pose proof (@predict_ep_length f coef w relift false X0 U HX0 Hle) as HL.
  unfold predict_ep in *.
  destruct relift; split; (apply hstack_skipn || apply hstack_firstn); assumption.
Qed.

(* lifted output without re-lifting: n - w + 1 rows, row k = theta[k] (++ upsilon[k]) *)
Theorem predict_ep_lifted_norelift (f : fitted T) (coef : raw) w (X0 U : raw) :
  length X0 = w -> w <= length U -> lift_state O f (Some false) X0 <> [] ->
  let st := norelift_loop O f coef w U X0 in
  length (predict_ep O f coef w false true false X0 U) = length U - w + 1
  /\ length (predict_ep O f coef w false true true X0 U) = length U - w + 1
  /\ forall k, k < length U - w + 1 ->
       nth k (predict_ep O f coef w false true true X0 U) [] =
       nth k (nr_Theta st) [] ++ nth k (nr_Ups st) [].
Proof.
  intros HX0 Hle Hl. cbn zeta.
  destruct (@norelift_loop_sizes f coef w U X0 HX0 Hle) as [_ [HU _]].
  pose proof (@norelift_loop_theta_length_partial f coef w U X0 Hl) as HT.
  unfold predict_ep. rewrite hstack_length, HT, HU. repeat split; [lia|].
  intros k Hk. apply hstack_nth; lia.
Qed.

(* ================================================================== (d) episodes *)
Notation lab := (op_lab O).
Notation inj := (op_inj O).

Lemma of_raw_to_raw_true (D : dmat T) :
  (forall n, In n (labels D) -> lab (inj n) = n) -> of_raw O true (to_raw O true D) = D.
Proof.
  intros H. unfold of_raw, to_raw. rewrite map_map. cbn [hd tl].
  rewrite <- (map_id D) at 2. apply map_ext_in. intros [n r] Hin. cbn [fst snd].
  rewrite H; [reflexivity|]. unfold labels. apply in_map_iff. exists (n, r). auto.
Qed.

Lemma of_raw_to_raw_false (D : dmat T) :
  (forall n, In n (labels D) -> n = 0%N) -> of_raw O false (to_raw O false D) = D.
Proof.
  intros H. unfold of_raw, to_raw. rewrite map_map.
  rewrite <- (map_id D) at 2. apply map_ext_in. intros [n r] Hin. cbn [fst snd].
  rewrite (H n); [reflexivity|]. unfold labels. apply in_map_iff. exists (n, r). auto.
Qed.

Lemma labels_combine_false (eps : episodes T) n : In n (labels (combine false eps)) -> n = 0%N.
Proof.
  unfold labels, combine. intros H. apply in_map_iff in H. destruct H as [[m r] [<- H]].
  apply in_flat_map in H. destruct H as [e [_ H]]. apply in_map_iff in H.
  destruct H as [r' [Heq _]]. inversion Heq. reflexivity.
Qed.

Lemma split_true_nonempty (D : dmat T) e : In e (split true D) -> snd e <> [].
Proof.
  unfold split. intros H. apply in_map_iff in H. destruct H as [i [<- Hi]]. cbn [snd].
  intros Hn. apply rows_of_nil_iff in Hn. apply Hn. apply (proj1 (uniq_In _ _)) in Hi. exact Hi.
Qed.

(* Splitting the raw matrix obtained by "split, apply g per episode, combine, add the
   label column back" gives back the per-episode results, episode by episode. *)
Lemma split_of_raw_map_episodes c (g : raw -> raw) (D : dmat T) :
  (c = true -> forall n, In n (labels D) -> lab (inj n) = n) ->
  (c = true -> forall E, E <> [] -> g E <> []) ->
  split c (of_raw O c (to_raw O c (map_episodes c g D)))
  = map (fun e => (fst e, g (snd e))) (split c D).
Proof.
  intros Hlab Hg. destruct c.
  - rewrite of_raw_to_raw_true.
    + unfold map_episodes. apply split_combine.
      * rewrite map_map. cbn [fst]. change (fun x => fst x) with (@fst N (list (list T))).
        rewrite split_true_labels. apply uniq_sorted.
      * intros e He. apply in_map_iff in He. destruct He as [e0 [<- He0]]. cbn [snd].
        apply Hg; [reflexivity|]. apply (split_true_nonempty D e0 He0).
    + intros n Hn. apply Hlab; [reflexivity|]. apply (labels_map_episodes_subset g D n Hn).
  - rewrite of_raw_to_raw_false by (unfold map_episodes; apply labels_combine_false).
    unfold map_episodes, split, combine, rows. cbn [map flat_map fst snd].
    rewrite app_nil_r, map_map. cbn [snd]. rewrite map_id. reflexivity.
Qed.

(* The one-argument call form predict_trajectory(X) equals the two-argument form
   predict_trajectory(X0, U) on the initial conditions and inputs projected out of the
   same matrix.  Conditions: w >= 1, and (only when the call has an episode column) the
   label <-> cell conversion round-trips on the labels that occur. *)
Theorem predict_trajectory_one_arg (f : fitted T) (coef : raw) w relift ret_lifted ret_input
        (call : option bool) (X : raw) :
  1 <= w ->
  (eff f call = true -> forall n, In n (labels (of_raw O true X)) -> lab (inj n) = n) ->
  predict_trajectory O f coef w relift ret_lifted ret_input call X None
  = predict_trajectory O f coef w relift ret_lifted ret_input call
      (ic_raw O (eff f call) w (fst (f_dims f)) X)
      (Some (input_raw O (eff f call) (fst (f_dims f)) X)).
Proof.
  intros Hw Hlab. unfold predict_trajectory, ic_raw, input_raw.
  set (c := eff f call) in *. set (ns := fst (f_dims f)).
  f_equal. f_equal. f_equal.
  assert (Hlab' : c = true -> forall n, In n (labels (of_raw O c X)) -> lab (inj n) = n).
  { intros Hc. rewrite Hc. apply Hlab. exact Hc. }
  rewrite !split_of_raw_map_episodes; try exact Hlab'.
  - rewrite zip_map_same', map_map. apply map_ext. intros [i E]. reflexivity.
  - intros _ E HE. destruct E; [congruence|discriminate].
  - intros _ E HE. destruct E as [|r E]; [congruence|].
    destruct w as [|w']; [lia|]. discriminate.
Qed.

Corollary predict_trajectory_one_arg_total (f : fitted T) (coef : raw) w relift ret_lifted ret_input
        (call : option bool) (X : raw) :
  1 <= w -> (forall n, lab (inj n) = n) ->
  predict_trajectory O f coef w relift ret_lifted ret_input call X None
  = predict_trajectory O f coef w relift ret_lifted ret_input call
      (ic_raw O (eff f call) w (fst (f_dims f)) X)
      (Some (input_raw O (eff f call) (fst (f_dims f)) X)).
Proof. intros Hw H. apply predict_trajectory_one_arg; [exact Hw|]. intros _ n _. apply H. Qed.

(* The projections are pykoop.extract_initial_conditions / pykoop.extract_input (the
   docstring example of predict_trajectory) whenever every row of X has the fit-time
   width n_states_in + n_inputs_in. *)
Lemma map_episodes_ext c (g g' : raw -> raw) (D : dmat T) :
  (forall e, In e (split c D) -> g (snd e) = g' (snd e)) -> map_episodes c g D = map_episodes c g' D.
Proof.
  intros H. unfold map_episodes. f_equal. apply map_ext_in. intros e He. rewrite (H e He). reflexivity.
Qed.

Theorem ic_raw_extract_ic c w ns nu (X : raw) :
  dwid (ns + nu) (of_raw O c X) ->
  ic_raw O c w ns X = to_raw O c (extract_ic c w nu (of_raw O c X)).
Proof.
  intros Hw. unfold ic_raw, extract_ic. f_equal. apply map_episodes_ext.
  intros e He. apply map_ext_in. intros r Hr. apply In_firstn in Hr.
  pose proof (Hw r (In_split c (of_raw O c X) e r He Hr)) as Hlen.
  unfold cols_but_last. destruct (Nat.eqb_spec nu 0) as [->|Hnu].
  - apply firstn_all2. lia.
  - rewrite Hlen. f_equal. lia.
Qed.

Theorem input_raw_extract_input c ns nu (X : raw) :
  dwid (ns + nu) (of_raw O c X) ->
  input_raw O c ns X = to_raw O c (extract_input c nu (of_raw O c X)).
Proof.
  intros Hw. unfold input_raw, extract_input. f_equal. apply map_episodes_ext.
  intros e He. apply map_ext_in. intros r Hr.
  pose proof (Hw r (In_split c (of_raw O c X) e r He Hr)) as Hlen.
  destruct (Nat.eqb_spec nu 0) as [->|Hnu].
  - apply skipn_all2. lia.
  - rewrite Hlen. f_equal. lia.
Qed.

(* the docstring identity  kp.predict_trajectory(X) == kp.predict_trajectory(x0, u) *)
Corollary predict_trajectory_extract (f : fitted T) (coef : raw) w relift ret_lifted ret_input
        (call : option bool) (X : raw) :
  1 <= w ->
  (eff f call = true -> forall n, In n (labels (of_raw O true X)) -> lab (inj n) = n) ->
  dwid (fst (f_dims f) + snd (f_dims f)) (of_raw O (eff f call) X) ->
  predict_trajectory O f coef w relift ret_lifted ret_input call X None
  = predict_trajectory O f coef w relift ret_lifted ret_input call
      (to_raw O (eff f call) (extract_ic (eff f call) w (snd (f_dims f)) (of_raw O (eff f call) X)))
      (Some (to_raw O (eff f call) (extract_input (eff f call) (snd (f_dims f)) (of_raw O (eff f call) X)))).
Proof.
  intros Hw Hlab Hwid.
  rewrite <- (@ic_raw_extract_ic (eff f call) w (fst (f_dims f)) (snd (f_dims f)) X Hwid).
  rewrite <- (@input_raw_extract_input (eff f call) (fst (f_dims f)) (snd (f_dims f)) X Hwid).
  apply predict_trajectory_one_arg; assumption.
Qed.

(* ================================================================== discharging the hypothesis *)
(* lift_state (episode_feature=False) of a window of at least min_samples rows has
   n - min_samples + 1 >= 1 rows, for every stage tree and either fit-time flag *)
Lemma lift_false_length (f : fitted T) (R : raw) :
  min_samples (f_stage f) <= length R ->
  length (lift O f (Some false) R) = length R + 1 - min_samples (f_stage f).
Proof.
  intros Hn. unfold lift, with_flag. destruct (f_ep f) eqn:Hep; cbn [Bool.eqb].
  - (* fitted with an episode feature: fake label column, one episode *)
    rewrite map_length. unfold transform_raw, to_raw, tf, of_raw. rewrite Hep.
    rewrite map_length, map_map. cbn [hd tl].
    set (i := op_lab O t0). set (X := map (fun r : list T => (i, r)) R).
    assert (Hrows : rows_of i X = R).
    { unfold X. rewrite rows_of_tagged, N.eqb_refl. reflexivity. }
    assert (Hlab : forall j, In j (labels X) -> j = i).
    { unfold X, labels. intros j Hj. rewrite map_map in Hj. cbn [fst] in Hj.
      apply in_map_iff in Hj. destruct Hj as [r [<- _]]. reflexivity. }
    assert (Hv : valid (min_samples (f_stage f)) X).
    { intros j Hj. rewrite (Hlab j Hj), Hrows. exact Hn. }
    assert (HR : R <> []) by (pose proof (samples_in_ge (f_stage f) 1) as Hge; unfold min_samples in Hn;
                              destruct R; [cbn [length] in Hn; lia|discriminate]).
    assert (Hi : In i (labels X)).
    { unfold X, labels. rewrite map_map. cbn [fst]. destruct R as [|r R']; [congruence|left; reflexivity]. }
    pose proof (@transform_sample_count T O (f_stage f) (f_dims f) X i Hv Hi) as Hc.
    rewrite Hrows in Hc. etransitivity; [|exact Hc].
    (* every row of the result carries label i *)
    set (Y := transform O (f_stage f) true (f_dims f) X).
    assert (HY : forall j, In j (labels Y) -> j = i).
    { intros j Hj. apply Hlab. apply (transform_labels O (f_stage f) (f_dims f) Hv j). exact Hj. }
    unfold rows_of. rewrite map_length.
    clearbody Y. clear -HY. induction Y as [|[j r] Y IH]; [reflexivity|].
    cbn [filter fst length].
    assert (j = i) as -> by (apply HY; left; reflexivity).
    rewrite N.eqb_refl. cbn [length]. f_equal. apply IH. intros k Hk. apply HY. right. exact Hk.
  - unfold transform_raw, to_raw, tf, of_raw. rewrite Hep.
    pose proof (transform_false O (f_stage f) (f_dims f) (map (fun r : list T => (0%N, r)) R)) as HF.
    unfold rows in HF. rewrite (map_map (fun r : list T => (0%N, r))) in HF. cbn [snd] in HF.
    rewrite map_id in HF.
    etransitivity; [apply (f_equal (@length _)); exact HF|].
    apply (tf_ep_count O (f_stage f)). exact Hn.
Qed.

Theorem lift_state_nonempty (f : fitted T) (X0 : raw) :
  min_samples (f_stage f) <= length X0 -> lift_state O f (Some false) X0 <> [].
Proof.
  intros Hn. unfold lift_state. cbn [eff].
  set (Rpad := map (fun r => r ++ repeat t0 (snd (f_dims f))) X0).
  assert (HL : length Rpad = length X0) by apply map_length.
  pose proof (@lift_false_length f Rpad) as H. rewrite HL in H. specialize (H Hn).
  pose proof (samples_in_ge (f_stage f) 1) as Hge. unfold min_samples in *.
  intros Hnil. apply (f_equal (@length _)) in Hnil. rewrite map_length in Hnil.
  cbn [length] in Hnil. lia.
Qed.

End PF.

(* ================================================================== non-vacuity (T := Z) *)
From PK Require Import ZInst.
Close Scope Z_scope.
Open Scope nat_scope.

(* the label round-trip hypothesis of (d) holds for the executable instance *)
Lemma zops_lab_inj : forall n : N, op_lab zops (op_inj zops n) = n.
Proof. intros n. cbn [zops op_lab op_inj]. unfold zlab, zinj. apply N2Z.id. Qed.

(* PolynomialLiftingFn(order=2) on (x, u), fitted with an episode feature:
   lifted states x, x^2 ; lifted inputs u, xu, u^2 ; coef_ is 5 x 2 *)
Definition c07_f : zfitted :=
  Build_fitted (Pipe (CCons (Leaf (LPoly Z [[1;0];[0;1];[2;0];[1;1];[0;2]])) (CNil Z))) true (1, 1).
Definition c07_coef : list (list Z) := [[1;0];[0;1];[1;1];[0;1];[1;0]]%Z.
(* columns: episode, x, u — two episodes (labels 0 and 2) *)
Definition c07_X : list (list Z) := [[0;1;1];[0;7;2];[0;7;0];[2;2;1];[2;9;1]]%Z.

Example C07_example_episodes :
  (* the projections *)
  ic_raw zops true 1 1 c07_X = [[0;1];[2;2]]%Z
  /\ input_raw zops true 1 c07_X = [[0;1];[0;2];[0;0];[2;1];[2;1]]%Z
  (* one-argument form, state + input returned: inputs pass through, the states after
     the initial condition are predictions (7, 7, 9 of the data are ignored) *)
  /\ zpredict_trajectory c07_f c07_coef 1 true false true None c07_X None
     = [[0;1;1];[0;3;2];[0;9;0];[2;2;1];[2;4;1]]%Z
  (* two-argument form on the projections: same result *)
  /\ zpredict_trajectory c07_f c07_coef 1 true false true None
       (ic_raw zops true 1 1 c07_X) (Some (input_raw zops true 1 c07_X))
     = [[0;1;1];[0;3;2];[0;9;0];[2;2;1];[2;4;1]]%Z
  (* lifted output: re-lifting and not re-lifting differ (x^2 column: 9, 81 vs 3, 11) *)
  /\ zpredict_trajectory c07_f c07_coef 1 true true true None c07_X None
     = [[0;1;1;1;1;1];[0;3;9;2;6;4];[0;9;81;0;0;0];[2;2;4;1;2;1];[2;4;16;1;4;1]]%Z
  /\ zpredict_trajectory c07_f c07_coef 1 false true true None c07_X None
     = [[0;1;1;1;1;1];[0;3;3;2;6;4];[0;9;11;0;0;0];[2;2;4;1;2;1];[2;4;7;1;4;1]]%Z.
Proof. vm_compute. repeat split; reflexivity. Qed.

(* the general theorem instantiated on this data (hypotheses discharged, not assumed) *)
Example C07_example_one_arg :
  zpredict_trajectory c07_f c07_coef 1 true false true None c07_X None
  = zpredict_trajectory c07_f c07_coef 1 true false true None
      (ic_raw zops true 1 1 c07_X) (Some (input_raw zops true 1 c07_X)).
Proof.
  apply (@predict_trajectory_one_arg_total Z zops c07_f c07_coef 1 true false true None c07_X);
    [lia|exact zops_lab_inj].
Qed.

(* DelayLiftingFn(1, 1), window w = min_samples = 2, no episode feature *)
Definition c07_fd : zfitted :=
  Build_fitted (Pipe (CCons (Leaf (LDelay Z 1 1)) (CNil Z))) false (1, 1).
Definition c07_coefd : list (list Z) := [[1;0];[0;1];[1;1];[0;1]]%Z.
Definition c07_U : list (list Z) := [[1];[2];[3];[4]]%Z.
Definition c07_X0 : list (list Z) := [[5];[6]]%Z.

Example C07_example_loops :
  relift_loop zops c07_fd c07_coefd 2 c07_U c07_X0 = [[5];[6];[8];[11]]%Z
  /\ relift_spec zops c07_fd c07_coefd 2 c07_U c07_X0 = [[5];[6];[8];[11]]%Z
  /\ norelift_loop zops c07_fd c07_coefd 2 c07_U c07_X0
     = {| nr_X := [[5];[6];[8];[11]]%Z;
          nr_Theta := [[6;5];[8;8];[11;13]]%Z;
          nr_Ups := [[2;1];[3;2];[4;3]]%Z |}
  /\ nr_spec zops c07_fd c07_coefd 2 c07_U c07_X0
     = norelift_loop zops c07_fd c07_coefd 2 c07_U c07_X0
  /\ zlift_state c07_fd (Some false) c07_X0 = [[6;5]]%Z.
Proof. vm_compute. repeat split; reflexivity. Qed.

(* The hypothesis  lift_state f (Some false) X0 <> []  of the Theta statements of (b)
   cannot be dropped: with a delay stage and w = 1 (shorter than min_samples = 2),
   lift_state X0 has no row, the model's Theta array has n - w rows instead of
   n - w + 1, and Theta[0] is a zero row, not hd [] (lift_state X0) = [].
   (In the implementation the assignment Theta_i[[0], :] = lift_state(X0_i) raises.) *)
Example C07_counterexample_theta :
  let st := norelift_loop zops c07_fd c07_coefd 1 c07_U [[5]]%Z in
  length [[5]]%Z = 1 /\ 1 <= length c07_U
  /\ zlift_state c07_fd (Some false) [[5]]%Z = []
  /\ length (nr_Theta st) = 3 /\ length c07_U - 1 + 1 = 4
  /\ nth 0 (nr_Theta st) [] = [0;0]%Z
  /\ hd [] (zlift_state c07_fd (Some false) [[5]]%Z) = [].
Proof. vm_compute. repeat split; try reflexivity. repeat constructor. Qed.

(* The two hypotheses of (d) cannot be dropped (call with an episode column).
   1. labels must round-trip: with op_lab (op_inj n) = n + 1 the two-argument form sees
      every label shifted once more than the one-argument form. *)
Definition zops_shift : ops Z := {|
  op_t0 := 0%Z; op_t1 := 1%Z; op_add := Z.add; op_mul := Z.mul;
  op_cos := zcos; op_sin := zsin; op_atan2 := zatan2;
  op_sk_fwd := zsk_fwd; op_sk_inv := zsk_inv;
  op_radial := zradial; op_kern := zkern; op_unwrap := zunwrap;
  op_inj := zinj; op_lab := fun x => (zlab x + 1)%N |}.
Example C07_counterexample_labels :
  predict_trajectory zops_shift c07_f c07_coef 1 true false true None c07_X None
  = [[1;1;1];[1;3;2];[1;9;0];[3;2;1];[3;4;1]]%Z
  /\ predict_trajectory zops_shift c07_f c07_coef 1 true false true None
       (ic_raw zops_shift true 1 1 c07_X) (Some (input_raw zops_shift true 1 c07_X))
     = [[2;1;1];[2;3;2];[2;9;0];[4;2;1];[4;4;1]]%Z.
Proof. vm_compute. split; reflexivity. Qed.
(* 2. w >= 1: with w = 0 the initial-condition matrix is empty, so the two-argument form
      has no episode at all. *)
Example C07_counterexample_w0 :
  zpredict_trajectory c07_f c07_coef 0 true false true None c07_X None
  = [[0;1];[0;2];[0;0];[2;1];[2;1]]%Z
  /\ zpredict_trajectory c07_f c07_coef 0 true false true None
       (ic_raw zops true 0 1 c07_X) (Some (input_raw zops true 1 c07_X)) = [].
Proof. vm_compute. split; reflexivity. Qed.

Print Assumptions relift_loop_spec.
Print Assumptions relift_loop_length.
Print Assumptions relift_loop_ic.
Print Assumptions relift_loop_step.
Print Assumptions norelift_loop_spec.
Print Assumptions norelift_loop_sizes.
Print Assumptions norelift_loop_theta_length_partial.
Print Assumptions norelift_loop_theta0_partial.
Print Assumptions norelift_loop_ups.
Print Assumptions norelift_loop_step_partial.
Print Assumptions predict_ep_modes.
Print Assumptions predict_ep_length.
Print Assumptions predict_ep_input_rows.
Print Assumptions predict_ep_input_passthrough.
Print Assumptions predict_ep_lifted_norelift.
Print Assumptions predict_trajectory_one_arg.
Print Assumptions predict_trajectory_one_arg_total.
Print Assumptions predict_trajectory_extract.
Print Assumptions lift_state_nonempty.
Print Assumptions C07_example_episodes.
Print Assumptions C07_example_one_arg.
Print Assumptions C07_example_loops.
Print Assumptions C07_counterexample_theta.
Print Assumptions C07_counterexample_labels.
Print Assumptions C07_counterexample_w0.
