(* Round trip of DelayLiftingFn on one episode (C01, delay leaf). *)
From Coq Require Import List ZArith NArith Bool Arith Lia.
From PK Require Import PyList ListFacts Episodes Stage StageFacts EpisodeSem RoundtripList.
Import ListNotations.
Set Implicit Arguments.

Section Delay.
Variable T : Type.
Notation mat := (list (list T)).

(* row k of delay n M : samples k+n, k+n-1, ..., k side by side (newest first) *)
Definition drow (n : nat) (M : mat) (k : nat) : list T :=
  concat (map (fun i => nth (k + i) M []) (rev (seq 0 (n + 1)))).

Lemma pyslice_block (M : mat) n i :
  n <= length M -> i <= n ->
  pyslice (Z.of_nat i) (Z.of_nat (length M) - Z.of_nat n + Z.of_nat i) M
  = firstn (length M - n) (skipn i M).
Proof.
  intros Hn Hi. unfold pyslice, norm_idx.
  destruct (Z.ltb_spec (Z.of_nat i) 0); [lia|].
  destruct (Z.ltb_spec (Z.of_nat (length M) - Z.of_nat n + Z.of_nat i) 0); [lia|].
  f_equal; [lia|]. f_equal. lia.
Qed.

Lemma hconcat_map_map (f : nat -> nat -> list T) m (l : list nat) :
  l <> [] ->
  hconcat (map (fun i => map (fun k => f k i) (seq 0 m)) l)
  = map (fun k => concat (map (f k) l)) (seq 0 m).
Proof.
  induction l as [|i l IH]; intros Hne; [congruence|].
  destruct l as [|i' l].
  - cbn [map hconcat concat]. apply map_ext. intros k. rewrite app_nil_r. reflexivity.
  - change (map (fun i0 => map (fun k => f k i0) (seq 0 m)) (i :: i' :: l))
      with (map (fun k => f k i) (seq 0 m) :: map (fun i0 => map (fun k => f k i0) (seq 0 m)) (i' :: l)).
    match goal with |- hconcat (?b :: ?bs) = _ => change (hconcat (b :: bs)) with (hstack b (hconcat bs)) end.
    rewrite IH by discriminate. rewrite hstack_map. reflexivity.
Qed.

Lemma delay_rep n (M : mat) :
  n <= length M -> delay n M = map (drow n M) (seq 0 (length M - n)).
Proof.
  intros Hn. unfold delay, delay_blocks.
  assert (Hb : map (fun i => pyslice (Z.of_nat i) (Z.of_nat (length M) - Z.of_nat n + Z.of_nat i) M) (rev (seq 0 (n + 1)))
             = map (fun i => map (fun k => nth (k + i) M []) (seq 0 (length M - n))) (rev (seq 0 (n + 1)))).
  { apply map_ext_in. intros i Hi. apply in_rev, in_seq in Hi.
    rewrite pyslice_block by lia. apply firstn_skipn_map_nth. lia. }
  rewrite Hb. rewrite hconcat_map_map.
  - reflexivity.
  - intros H. apply (f_equal (@length _)) in H. rewrite rev_length, seq_length in H. cbn in H. lia.
Qed.

Lemma rev_seq_S n : rev (seq 0 (n + 1)) = n :: rev (seq 0 n).
Proof. rewrite seq_app, rev_app_distr. reflexivity. Qed.

Lemma rev_seq_snoc n : rev (seq 0 (n + 1)) = rev (seq 1 n) ++ [0].
Proof. replace (n + 1) with (S n) by lia. reflexivity. Qed.

Lemma nth_wid w (M : mat) k : wid w M -> k < length M -> length (nth k M []) = w.
Proof. intros Hw Hk. apply Hw. apply nth_In. exact Hk. Qed.

Lemma drow_blocks_wid w (M : mat) k (l : list nat) :
  wid w M -> (forall i, In i l -> k + i < length M) ->
  wid w (map (fun i => nth (k + i) M []) l).
Proof.
  intros Hw Hl r Hr. apply in_map_iff in Hr. destruct Hr as [i [<- Hi]].
  apply nth_wid; [exact Hw|apply Hl; exact Hi].
Qed.

Lemma drow_length w n (M : mat) k :
  wid w M -> k + n < length M -> length (drow n M k) = w * (n + 1).
Proof.
  intros Hw Hk. unfold drow. rewrite (@concat_length_wid _ w).
  - rewrite map_length, rev_length, seq_length. lia.
  - apply drow_blocks_wid; [exact Hw|]. intros i Hi. apply in_rev, in_seq in Hi. lia.
Qed.

Lemma drow_oldest w n (M : mat) k :
  wid w M -> k + n < length M -> last_rows w (drow n M k) = nth k M [].
Proof.
  intros Hw Hk. unfold drow. rewrite rev_seq_snoc, map_app. cbn [map].
  rewrite last_rows_concat_snoc.
  - rewrite Nat.add_0_r. reflexivity.
  - apply drow_blocks_wid; [exact Hw|]. intros i Hi. apply in_rev, in_seq in Hi. lia.
  - apply nth_wid; [exact Hw|lia].
Qed.

Lemma drow_newest w n (M : mat) k :
  wid w M -> k + n < length M -> firstn w (drow n M k) = nth (k + n) M [].
Proof.
  intros Hw Hk. unfold drow. rewrite rev_seq_S. cbn [map concat].
  assert (Hl : length (nth (k + n) M []) = w) by (apply nth_wid; [exact Hw|lia]).
  rewrite firstn_app, Hl, Nat.sub_diag, firstn_all2 by lia. cbn [firstn]. apply app_nil_r.
Qed.

Lemma undelay_eq n (E : mat) :
  E <> [] ->
  undelay n E = map (last_rows (Nat.div (length (hd [] E)) (n + 1))) (drop_last 1 E)
                ++ rev (chunks (Nat.div (length (hd [] E)) (n + 1)) (n + 1) (last E [])).
Proof. destruct E as [|r0 E]; [congruence|reflexivity]. Qed.

(* undelay inverts delay exactly (no sample lost), widths 0 included *)
Theorem undelay_delay w n (M : mat) :
  wid w M -> n + 1 <= length M -> undelay n (delay n M) = M.
Proof.
  intros Hw Hn. rewrite delay_rep by lia.
  set (m := length M - n). assert (Hm : 1 <= m) by (unfold m; lia).
  rewrite undelay_eq.
  2:{ intros H. apply (f_equal (@length _)) in H. rewrite map_length, seq_length in H. cbn in H. lia. }
  assert (Hhd : hd [] (map (drow n M) (seq 0 m)) = drow n M 0).
  { destruct m as [|m']; [lia|]. reflexivity. }
  rewrite Hhd, (@drow_length w) by (try exact Hw; lia).
  rewrite Nat.div_mul by lia.
  rewrite drop_last_map_seq, map_map, last_map_seq by exact Hm.
  transitivity (map (fun k => nth k M []) (seq 0 (m - 1)) ++ skipn (m - 1) M);
    [|symmetry; apply firstn_skipn_split; unfold m; lia].
  f_equal.
  - apply map_ext_in. intros k Hk. apply in_seq in Hk. apply drow_oldest; [exact Hw|unfold m in *; lia].
  - unfold drow.
    replace (n + 1) with (length (map (fun i => nth (m - 1 + i) M []) (rev (seq 0 (n + 1))))) at 1
      by (rewrite map_length, rev_length, seq_length; reflexivity).
    rewrite chunks_concat.
    + rewrite <- map_rev, rev_involutive.
      rewrite <- (firstn_all2 (n := n + 1) (skipn (m - 1) M)) by (rewrite skipn_length; unfold m; lia).
      rewrite (@firstn_skipn_map_nth _ M [] (n + 1) (m - 1)) by (unfold m; lia).
      apply map_ext. intros i. f_equal. lia.
    + apply drow_blocks_wid; [exact Hw|]. intros i Hi. apply in_rev, in_seq in Hi. unfold m. lia.
Qed.

Lemma drow_skipn n (M : mat) k j : drow n (skipn k M) j = drow n M (k + j).
Proof.
  unfold drow. f_equal. apply map_ext. intros i. rewrite nth_skipn. f_equal. lia.
Qed.

Theorem skipn_delay n k (M : mat) :
  k + n <= length M -> skipn k (delay n M) = delay n (skipn k M).
Proof.
  intros H. rewrite !delay_rep by (try rewrite skipn_length; lia).
  rewrite skipn_map_seq, skipn_length. cbn [Nat.add].
  rewrite <- (Nat.add_0_l k) at 1. rewrite map_seq_shift.
  replace (length M - n - k) with (length M - k - n) by lia.
  apply map_ext. intros j. symmetry. apply drow_skipn.
Qed.

Theorem delay_newest w n (M : mat) :
  wid w M -> n <= length M -> map (firstn w) (delay n M) = skipn n M.
Proof.
  intros Hw Hn. rewrite delay_rep by lia. rewrite map_map.
  rewrite <- (firstn_all2 (n := length M - n) (skipn n M)) by (rewrite skipn_length; lia).
  rewrite (@firstn_skipn_map_nth _ M [] (length M - n) n) by lia.
  apply map_ext_in. intros k Hk. apply in_seq in Hk. apply drow_newest; [exact Hw|lia].
Qed.

(* ------------------------------------------------------------ delay_ep *)
Lemma delay_ep_rep (d : dims) dx du (E : mat) :
  Nat.max dx du + 1 <= length E ->
  delay_ep d dx du E
  = hstack (delay dx (skipn (Nat.max dx du - dx) (map (firstn (fst d)) E)))
           (delay du (skipn (Nat.max dx du - du) (map (skipn (fst d)) E))).
Proof.
  intros H. unfold delay_ep.
  rewrite !delay_length by (rewrite map_length; lia). rewrite !map_length.
  rewrite !last_rows_skipn by lia.
  rewrite !delay_length by (rewrite map_length; lia). rewrite !map_length.
  rewrite !skipn_delay by (rewrite map_length; lia).
  f_equal; f_equal; f_equal; lia.
Qed.

Theorem undelay_ep_delay_ep (d : dims) dx du (E : mat) :
  wid (fst d + snd d) E -> Nat.max dx du + 1 <= length E ->
  undelay_ep d dx du (delay_ep d dx du E) = skipn (Nat.max dx du - Nat.min dx du) E.
Proof.
  intros Hw Hl. rewrite delay_ep_rep by exact Hl. unfold undelay_ep.
  set (Es := map (firstn (fst d)) E). set (Eu := map (skipn (fst d)) E).
  assert (HwEs : wid (fst d) Es).
  { unfold Es. eapply wid_map; [|exact Hw]. intros r Hr. eapply firstn_length_exact; eauto. }
  assert (HwEu : wid (snd d) Eu).
  { unfold Eu. eapply wid_map; [|exact Hw]. intros r Hr. eapply skipn_length_exact; eauto. }
  assert (HlEs : length Es = length E) by (unfold Es; apply map_length).
  assert (HlEu : length Eu = length E) by (unfold Eu; apply map_length).
  set (A := delay dx (skipn (Nat.max dx du - dx) Es)).
  set (B := delay du (skipn (Nat.max dx du - du) Eu)).
  assert (HlA : length A = length E - Nat.max dx du).
  { unfold A. rewrite delay_length; rewrite skipn_length; lia. }
  assert (HlB : length B = length E - Nat.max dx du).
  { unfold B. rewrite delay_length; rewrite skipn_length; lia. }
  assert (HwA : wid (fst d * (dx + 1)) A).
  { unfold A. rewrite Nat.mul_comm. apply wid_delay. apply wid_skipn. exact HwEs. }
  rewrite (hstack_firstn_cols _ HwA) by lia.
  rewrite (hstack_skipn_cols _ HwA) by lia.
  unfold A, B.
  rewrite (@undelay_delay (fst d)) by (try (apply wid_skipn; exact HwEs); rewrite skipn_length; lia).
  rewrite (@undelay_delay (snd d)) by (try (apply wid_skipn; exact HwEu); rewrite skipn_length; lia).
  rewrite !skipn_length. rewrite !last_rows_skipn by lia.
  rewrite !skipn_length, !skipn_skipn'.
  transitivity (skipn (Nat.max dx du - Nat.min dx du) (hstack Es Eu));
    [|unfold Es, Eu; rewrite hstack_cols; reflexivity].
  rewrite skipn_hstack. f_equal; f_equal; lia.
Qed.

Theorem skipn_delay_ep (d : dims) dx du k (E : mat) :
  k + Nat.max dx du + 1 <= length E ->
  skipn k (delay_ep d dx du E) = delay_ep d dx du (skipn k E).
Proof.
  intros H. rewrite !delay_ep_rep by (try rewrite skipn_length; lia).
  rewrite skipn_hstack.
  rewrite !skipn_delay by (rewrite skipn_length, map_length; lia).
  rewrite <- !skipn_map, !skipn_skipn'.
  f_equal; f_equal; f_equal; lia.
Qed.

Lemma map_firstn_hstack_le w ns (M1 M2 : mat) :
  wid w M1 -> ns <= w -> length M1 <= length M2 ->
  map (firstn ns) (hstack M1 M2) = map (firstn ns) M1.
Proof.
  intros Hw Hns Hl. rewrite <- (hstack_firstn_cols _ Hw Hl) at 2. rewrite map_map.
  apply map_ext. intros r. rewrite firstn_firstn. f_equal. lia.
Qed.

(* the leading state columns of a delayed episode are the newest state *)
Theorem delay_ep_state (d : dims) dx du (E : mat) :
  wid (fst d + snd d) E -> Nat.max dx du + 1 <= length E ->
  map (firstn (fst d)) (delay_ep d dx du E) = map (firstn (fst d)) (skipn (Nat.max dx du) E).
Proof.
  intros Hw Hl. rewrite delay_ep_rep by exact Hl.
  set (Es := map (firstn (fst d)) E).
  assert (HwEs : wid (fst d) Es).
  { unfold Es. eapply wid_map; [|exact Hw]. intros r Hr. eapply firstn_length_exact; eauto. }
  assert (HlEs : length Es = length E) by (unfold Es; apply map_length).
  rewrite (@map_firstn_hstack_le ((dx + 1) * fst d)).
  - rewrite (@delay_newest (fst d)) by (try (apply wid_skipn; exact HwEs); rewrite skipn_length; lia).
    rewrite skipn_skipn'. unfold Es. rewrite <- skipn_map. f_equal. lia.
  - apply wid_delay. apply wid_skipn. exact HwEs.
  - lia.
  - rewrite !delay_length; rewrite !skipn_length, ?map_length; lia.
Qed.

Lemma undelay_nonempty n (E : mat) : E <> [] -> undelay n E <> [].
Proof.
  intros H. rewrite undelay_eq by exact H. intros Hc. apply app_eq_nil in Hc. destruct Hc as [_ Hc].
  apply (f_equal (@length _)) in Hc. rewrite rev_length in Hc.
  replace (n + 1) with (S n) in Hc by lia. cbn [chunks length] in Hc. discriminate.
Qed.

End Delay.
