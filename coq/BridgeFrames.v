(* Bridge for the episode-level glue of pykoop/koopman_pipeline.py (C01-C05, C07, C16): the functions REGENERATED
   from the source (Gen/FramesGen.v) - the two _apply_transform_or_inverse, KoopmanPipeline.transform /
   inverse_transform / n_samples_in, SplitPipeline.transform / inverse_transform / n_samples_in and
   KoopmanRegressor.predict - are the corresponding definitions of the model (Episodes.v, Stage.v, Helpers.v).
   The fitted stages appear in the generated code as lists of functions; [chain_tf] / [chain_itf] / [chain_nsi] are
   those lists for a chain of the model. *)
From Coq Require Import List ZArith NArith Arith Bool Lia.
From PK Require Import PyList SliceLib Episodes Stage Helpers ShiftFacts BridgeEpisodes BridgeStages.
From PK.Gen Require Import EpisodesGen FramesGen StagesGen.
Import ListNotations.

Section Frames.
Variable T : Type.
Variable O : ops T.
Implicit Types (X : dmat T).

(* ---------------- EpisodeIndependentLiftingFn._apply_transform_or_inverse *)
Theorem gen_indep_apply_model : forall (b : bool) (f0 g0 : list T -> list T) X,
  gen_indep_apply T b (map f0) (map g0) X = rowwise (if b then f0 else g0) X.
Proof.
  intros b f0 g0 X. unfold gen_indep_apply, rowwise, label_column, data_columns. cbn zeta.
  destruct b; induction X as [|[l r] X IH]; cbn [map map2 fst snd]; try reflexivity; now rewrite IH.
Qed.

(* ---------------- EpisodeDependentLiftingFn._apply_transform_or_inverse *)
Theorem gen_dep_apply_model : forall (ep b : bool) (tf itf : list (list T) -> list (list T)) X,
  gen_dep_apply T ep b tf itf X = map_episodes ep (if b then tf else itf) X.
Proof.
  intros ep b tf itf X. unfold gen_dep_apply. cbn zeta. rewrite app_nil_l.
  etransitivity; [|apply (gen_frame_model T ep (if b then tf else itf) X)]. f_equal. apply map_ext. intros e. now destruct b.
Qed.

(* ---------------- folds over the fitted stages *)
Fixpoint chain_tf (c : chain T) (ep : bool) (d : dims) : list (dmat T -> dmat T) :=
  match c with
  | CNil _ => []
  | CCons s c' => transform O s ep d :: chain_tf c' ep (sdims s d)
  end.
Fixpoint chain_itf (c : chain T) (ep : bool) (d : dims) : list (dmat T -> dmat T) :=
  match c with
  | CNil _ => []
  | CCons s c' => inverse O s ep d :: chain_itf c' ep (sdims s d)
  end.
Fixpoint chain_nsi (c : chain T) : list (nat -> nat) :=
  match c with
  | CNil _ => []
  | CCons s c' => samples_in s :: chain_nsi c'
  end.

Lemma fold_apply_app : forall (A : Type) (fs gs : list (A -> A)) (x : A),
  fold_left (fun acc lf => lf acc) (fs ++ gs) x = fold_left (fun acc lf => lf acc) gs (fold_left (fun acc lf => lf acc) fs x).
Proof. intros A fs gs x. apply fold_left_app. Qed.

Theorem gen_pipeline_transform_model : forall (c : chain T) ep d X,
  gen_pipeline_transform T (chain_tf c ep d) X = ctransform O c ep d X.
Proof.
  unfold gen_pipeline_transform. cbn zeta.
  induction c as [|s c IH]; intros ep d X; [reflexivity|]. cbn [chain_tf fold_left ctransform]. apply IH.
Qed.

Theorem gen_pipeline_inverse_model : forall (c : chain T) ep d X,
  gen_pipeline_inverse T (chain_itf c ep d) X = cinverse O c ep d X.
Proof.
  unfold gen_pipeline_inverse. cbn zeta.
  induction c as [|s c IH]; intros ep d X; [reflexivity|].
  cbn [chain_itf rev cinverse]. rewrite fold_apply_app. cbn [fold_left]. now rewrite IH.
Qed.

Theorem gen_pipeline_n_samples_in_model : forall (c : chain T) n,
  gen_pipeline_n_samples_in (chain_nsi c) n = csamples_in c n.
Proof.
  unfold gen_pipeline_n_samples_in. cbn zeta.
  induction c as [|s c IH]; intros n; [reflexivity|].
  cbn [chain_nsi rev csamples_in]. rewrite fold_apply_app. cbn [fold_left]. now rewrite IH.
Qed.

Theorem gen_split_n_samples_in_model : forall (xs us : chain T) n,
  gen_split_n_samples_in (chain_nsi xs) (chain_nsi us) n = samples_in (Split xs us) n.
Proof.
  intros xs us n. unfold gen_split_n_samples_in. cbn zeta. cbn [samples_in].
  f_equal; apply gen_pipeline_n_samples_in_model.
Qed.

(* ---------------- SplitPipeline.transform / inverse_transform *)
Lemma split_frame : forall (ep : bool) (g : list (list T) -> list (list T)) X,
  gen_combine_episodes T ([] ++ map (fun e => let i := fst e in let X_i := snd e in (i, g X_i)) (gen_split_episodes T X ep)) ep
  = map_episodes ep g X.
Proof. intros ep g X. rewrite app_nil_l. apply gen_frame_model. Qed.

Lemma zip_tail : forall (ep : bool) (Ts Tu : dmat T),
  gen_combine_episodes T
    ([] ++ map (fun su => let i := fst (fst su) in let Xt_state_i := snd (fst su) in let Xt_input_i := snd (snd su) in
                          let n_samples := Z.min (Z.of_nat (length Xt_state_i)) (Z.of_nat (length Xt_input_i)) in
                          let Xt_i := hstack_list [slice_rows (Some (- n_samples)%Z) None Xt_state_i;
                                                   slice_rows (Some (- n_samples)%Z) None Xt_input_i] in (i, Xt_i))
               (zip (gen_split_episodes T Ts ep) (gen_split_episodes T Tu ep))) ep
  = zip_branches ep Ts Tu.
Proof.
  intros ep Ts Tu. unfold zip_branches. rewrite app_nil_l, gen_combine_episodes_model, !gen_split_episodes_model.
  f_equal. apply map_ext. intros su. cbn zeta. f_equal.
  rewrite zmin_nat. unfold slice_rows. rewrite !oslice_last. reflexivity.
Qed.

Theorem gen_split_transform_model : forall (xs us : chain T) (ep : bool) ns nu X,
  gen_split_transform T ep ns (chain_tf xs ep (ns, 0)) (chain_tf us ep (0, nu)) X
  = transform O (Split xs us) ep (ns, nu) X.
Proof.
  intros xs us ep ns nu X. unfold gen_split_transform. cbn zeta. cbn [transform fst snd].
  rewrite zip_tail. unfold cols_state, cols_input.
  rewrite <- !gen_pipeline_transform_model. unfold gen_pipeline_transform. cbn zeta.
  rewrite !split_frame. f_equal; f_equal; apply map_episodes_ext; intros E; [apply cols_to | apply cols_from].
Qed.

Theorem gen_split_inverse_model : forall (xs us : chain T) (ep : bool) ns nu X,
  gen_split_inverse T ep (fst (sdims (Split xs us) (ns, nu))) (chain_itf xs ep (ns, 0)) (chain_itf us ep (0, nu)) X
  = inverse O (Split xs us) ep (ns, nu) X.
Proof.
  intros xs us ep ns nu X. unfold gen_split_inverse. cbn zeta. cbn [inverse fst snd].
  rewrite zip_tail. unfold cols_state, cols_input.
  rewrite <- !gen_pipeline_inverse_model. unfold gen_pipeline_inverse. cbn zeta.
  rewrite !split_frame. f_equal; f_equal; apply map_episodes_ext; intros E; [apply cols_to | apply cols_from].
Qed.

(* ---------------- KoopmanRegressor.predict: X_i @ coef_ per episode ( r @ M = sum_k r_k M_k for every row r ) *)
Theorem gen_regressor_predict_model : forall (f : fitted T) (coef : list (list T)) X,
  gen_regressor_predict T (f_ep f) coef (fun E M => map (fun r => vecmat O (fst (f_out f)) r M) E) X
  = reg_predict O f coef X.
Proof.
  intros f coef X. unfold gen_regressor_predict, reg_predict. cbn zeta. apply split_frame.
Qed.

(* ---------------- KoopmanPipeline.predict (one-step prediction): lift, regressor, pad the lifted inputs with zeros,
   retract, keep the state columns.  The generated function works on (label, row) pairs; the model returns the raw
   array (label in column 0 when there is an episode feature) *)
Lemma to_raw_firstn : forall (ep : bool) n (Y : dmat T),
  to_raw O ep (map (fun lr => (fst lr, firstn n (snd lr))) Y) = map (firstn (b2n ep + n)) (to_raw O ep Y).
Proof. intros ep n Y. unfold to_raw. destruct ep; rewrite !map_map; apply map_ext; intros [l r]; reflexivity. Qed.

Theorem gen_pipeline_predict_model : forall (f : fitted T) (coef : list (list T)) (R : list (list T)),
  to_raw O (f_ep f)
    (gen_pipeline_predict T (op_t0 O) (tf O (f_stage f) (f_ep f) (f_dims f)) (reg_predict O f coef) (snd (f_out f))
       (itf O (f_stage f) (f_ep f) (f_dims f)) (snd (f_dims f)) (b2n (f_ep f) + fst (f_dims f) + snd (f_dims f)) (f_ep f)
       (of_raw O (f_ep f) R))
  = predict O f coef R.
Proof.
  intros f coef R. unfold gen_pipeline_predict, predict. cbn zeta.
  set (Xp := reg_predict O f coef (tf O (f_stage f) (f_ep f) (f_dims f) (of_raw O (f_ep f) R))).
  assert (Hpad : (if negb (Nat.eqb (snd (f_out f)) 0) then rowwise_pad (op_t0 O) Xp (snd (f_out f)) else Xp)
                 = rowwise (fun r => r ++ repeat (op_t0 O) (snd (f_out f))) Xp).
  { unfold rowwise, rowwise_pad. destruct (Nat.eqb_spec (snd (f_out f)) 0) as [->|_]; cbn [negb]; [|reflexivity].
    cbn [repeat]. induction Xp as [|[l r] Xp' IH]; [reflexivity|]. cbn [map fst snd]. rewrite app_nil_r. now rewrite <- IH. }
  rewrite Hpad.
  destruct (Nat.eqb_spec (snd (f_dims f)) 0) as [H0|Hn]; cbn [negb]; [reflexivity|].
  unfold dmat_cols_to. rewrite to_raw_firstn. f_equal. f_equal.
  destruct (f_ep f); cbn [b2n]; lia.
Qed.

(* ---------------- KoopmanRegressor.fit: the pairs (row k of the first array, row k of the second) that reach the
   concrete solver are the training pairs of the model (ShiftFacts.v) *)
Theorem gen_regressor_fit_arguments_model : forall (ep : bool) (nu : nat) X,
  let args := gen_regressor_fit_arguments T (shift_episodes ep nu) None X in
  zip (fst args) (snd args) = training_pairs ep nu X.
Proof. intros ep nu X. reflexivity. Qed.

Theorem gen_regressor_fit_arguments_explicit : forall (sh : dmat T -> dmat T * dmat T) (X Y : dmat T),
  gen_regressor_fit_arguments T sh (Some Y) X = (rows X, rows Y).
Proof. reflexivity. Qed.

(* ---------------- _weights_from_data_matrix *)
Theorem gen_weights_model : forall (W : Type) (dpow : nat -> W) (wzero : W) (n_steps : option nat) (ep : bool) X,
  gen_weights_from_data_matrix T W dpow wzero n_steps ep X = weights dpow wzero ep n_steps X.
Proof.
  intros W dpow wzero n_steps ep X. unfold gen_weights_from_data_matrix, weights. cbn zeta.
  rewrite app_nil_l, gen_split_episodes_model, flat_map_concat_map. f_equal.
Qed.

End Frames.

(* ---------- end to end for two leaves: the model's transform of a DelayLiftingFn / BilinearInputLiftingFn stage is
   the generated glue applied to the generated per-episode function *)
Section EndToEnd.
Variable T : Type.
Variable O : ops T.

Theorem delay_stage_generated : forall (ep : bool) ns nu dx du (g : list (list T) -> list (list T)) (X : dmat T),
  transform O (Leaf (LDelay T dx du)) ep (ns, nu) X
  = gen_dep_apply T ep true (gen_delay_transform T ns dx du) g X.
Proof.
  intros. rewrite gen_dep_apply_model. cbn [transform]. apply leaf_delay_generated.
Qed.

Theorem bilinear_stage_generated : forall (ep : bool) ns nu (g : list (list T) -> list (list T)) (X : dmat T),
  rect T (ns + nu) (rows X) ->
  transform O (Leaf (LBilinear T)) ep (ns, nu) X
  = gen_indep_apply T true (gen_bilinear_transform T (op_t0 O) (op_mul O) ns nu) g X.
Proof.
  intros ep ns nu g X Hrect. unfold gen_indep_apply, label_column, data_columns. cbn zeta.
  change (map snd X) with (rows X). rewrite (@gen_bilinear_transform_model T O ns nu (rows X) Hrect).
  cbn [transform leaf_transform]. unfold rowwise, rows. cbn [leaf_row].
  induction X as [|[l r] X IH]; [reflexivity|]. cbn [map map2 fst snd]. f_equal. apply IH.
  intros r' Hr'. apply Hrect. right. exact Hr'.
Qed.
End EndToEnd.
