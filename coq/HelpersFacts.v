(* C16 — facts about the lift / retract helper family of the model (Helpers.v). *)
From Coq Require Import List ZArith NArith Bool Arith Lia.
From PK Require Import PyList ListFacts Episodes EpisodesFacts Stage Helpers.
Import ListNotations.
Set Implicit Arguments.

Section HF.
Variable T : Type.
Variable O : ops T.
Notation raw := (list (list T)).

(* passing None behaves identically to passing the fit-time value, for all six helpers *)
Lemma with_flag_none (f : fitted T) (g : raw -> raw) R :
  with_flag O f g None R = with_flag O f g (Some (f_ep f)) R.
Proof. unfold with_flag. rewrite Bool.eqb_reflx. reflexivity. Qed.

Lemma lift_none (f : fitted T) R : lift O f None R = lift O f (Some (f_ep f)) R.
Proof. apply with_flag_none. Qed.
Lemma retract_none (f : fitted T) R : retract O f None R = retract O f (Some (f_ep f)) R.
Proof. apply with_flag_none. Qed.
Lemma lift_state_none (f : fitted T) R : lift_state O f None R = lift_state O f (Some (f_ep f)) R.
Proof. reflexivity. Qed.
Lemma lift_input_none (f : fitted T) R : lift_input O f None R = lift_input O f (Some (f_ep f)) R.
Proof. reflexivity. Qed.
Lemma retract_state_none (f : fitted T) R : retract_state O f None R = retract_state O f (Some (f_ep f)) R.
Proof. reflexivity. Qed.
Lemma retract_input_none (f : fitted T) R : retract_input O f None R = retract_input O f (Some (f_ep f)) R.
Proof. reflexivity. Qed.

(* lift / retract ARE transform / inverse_transform on the correspondingly padded or
   stripped data *)
Lemma lift_same (f : fitted T) R : lift O f (Some (f_ep f)) R = transform_raw O f R.
Proof. unfold lift, with_flag. rewrite Bool.eqb_reflx. reflexivity. Qed.

Lemma lift_strip (f : fitted T) R :
  f_ep f = true -> lift O f (Some false) R = map (@tl T) (transform_raw O f (map (fun r => op_t0 O :: r) R)).
Proof. intros H. unfold lift, with_flag. rewrite H. reflexivity. Qed.

Lemma lift_split (f : fitted T) R :
  f_ep f = false ->
  lift O f (Some true) R = to_raw O true (map_episodes true (transform_raw O f) (of_raw O true R)).
Proof. intros H. unfold lift, with_flag. rewrite H. reflexivity. Qed.

Lemma retract_same (f : fitted T) R : retract O f (Some (f_ep f)) R = inverse_raw O f R.
Proof. unfold retract, with_flag. rewrite Bool.eqb_reflx. reflexivity. Qed.

Lemma retract_strip (f : fitted T) R :
  f_ep f = true -> retract O f (Some false) R = map (@tl T) (inverse_raw O f (map (fun r => op_t0 O :: r) R)).
Proof. intros H. unfold retract, with_flag. rewrite H. reflexivity. Qed.

Lemma retract_split (f : fitted T) R :
  f_ep f = false ->
  retract O f (Some true) R = to_raw O true (map_episodes true (inverse_raw O f) (of_raw O true R)).
Proof. intros H. unfold retract, with_flag. rewrite H. reflexivity. Qed.

(* shape of the state / input helpers: exactly the declared column counts, keeping the
   episode column iff the call has one *)
Lemma lift_state_width (f : fitted T) call R w :
  wid w (lift O f (Some (eff f call)) (map (fun r => r ++ repeat (op_t0 O) (snd (f_dims f))) R)) ->
  fst (f_out f) + b2n (eff f call) <= w ->
  wid (fst (f_out f) + b2n (eff f call)) (lift_state O f call R).
Proof.
  intros Hw Hle. unfold lift_state. eapply wid_map; [|exact Hw].
  intros r Hr. rewrite firstn_length. lia.
Qed.

End HF.
