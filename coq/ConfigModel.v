(* C20 — executable model of pykoop/_sklearn_config/config.py, parameterised by
   the "shape" flags that the translator tools/gen_config.py extracts from the
   source on every run (copy vs alias at the three places where it matters, restore
   in `finally` or not, module-level aliasing of the importing thread's slot).
   With the shape of the pinned source the theorems of ConfigFacts.v hold; any other
   shape makes the bridge lemma fail and `refute` computes a failing script. *)
From Coq Require Import List Bool Arith.
Import ListNotations.

Record cfg_shape := {
  init_copies : bool;               (* _threadlocal.global_config = _global_config.copy() *)
  get_copies : bool;                (* get_config returns a copy *)
  restore_in_finally : bool;        (* config_context restores inside try/finally *)
  import_aliases_default : bool;    (* a module-level statement binds the importing thread's slot to the default dict *)
  default_skip : bool               (* _global_config['skip_validation'] *)
}.

Definition good_shape : cfg_shape :=
  {| init_copies := true; get_copies := true; restore_in_finally := true;
     import_aliases_default := false; default_skip := false |}.

(* operations a thread can perform *)
Inductive op :=
| OGet                              (* v = get_config()['skip_validation']  (observed) *)
| OMutRet (v : bool)                (* the caller mutates the dict returned by its last get_config *)
| OSet (v : option bool)            (* set_config(skip_validation=v) *)
| OEnter (v : option bool)          (* with config_context(skip_validation=v): *)
| OExit                             (* ... block left normally *)
| OExitExc.                         (* ... block left by an exception *)

Inductive saved := Snap (b : bool) | Live.      (* old_config: a snapshot, or an alias of the live dict *)

Record st := {
  glob : bool;                      (* the module default dict *)
  loc : nat -> option bool;         (* per-thread dict (None = not created yet) *)
  stk : nat -> list saved           (* per-thread stack of pending config_context frames *)
}.

Definition init_st (sh : cfg_shape) : st :=
  {| glob := default_skip sh; loc := fun _ => None; stk := fun _ => [] |}.

Definition upd {A} (f : nat -> A) (t : nat) (a : A) : nat -> A :=
  fun t' => if Nat.eqb t' t then a else f t'.

(* does thread t work directly on the default dict? (tid 0 is the importing thread) *)
Definition shares (sh : cfg_shape) (t : nat) : bool :=
  negb (init_copies sh) || (import_aliases_default sh && Nat.eqb t 0).

(* _get_threadlocal_config: create the thread's dict on first access *)
Definition touch (sh : cfg_shape) (t : nat) (s : st) : st :=
  if shares sh t then s
  else match loc s t with
       | Some _ => s
       | None => {| glob := glob s; loc := upd (loc s) t (Some (glob s)); stk := stk s |}
       end.

Definition read (sh : cfg_shape) (t : nat) (s : st) : bool :=
  if shares sh t then glob s else match loc s t with Some b => b | None => glob s end.

Definition write (sh : cfg_shape) (t : nat) (b : bool) (s : st) : st :=
  if shares sh t then {| glob := b; loc := loc s; stk := stk s |}
  else {| glob := glob s; loc := upd (loc s) t (Some b); stk := stk s |}.

Definition set_cfg (sh : cfg_shape) (t : nat) (v : option bool) (s : st) : st :=
  let s := touch sh t s in
  match v with None => s | Some b => write sh t b s end.

Definition restore (sh : cfg_shape) (t : nat) (o : saved) (s : st) : st :=
  match o with
  | Snap b => set_cfg sh t (Some b) s
  | Live => touch sh t s                 (* writes the live value onto itself *)
  end.

(* one step of thread t; the observation is Some value for OGet *)
Definition step (sh : cfg_shape) (s : st) (top : nat * op) : st * option bool :=
  let (t, o) := top in
  match o with
  | OGet => let s := touch sh t s in (s, Some (read sh t s))
  | OMutRet v => if get_copies sh then (s, None) else (write sh t v (touch sh t s), None)
  | OSet v => (set_cfg sh t v s, None)
  | OEnter v =>
      let s := touch sh t s in
      let old := if get_copies sh then Snap (read sh t s) else Live in
      let s := {| glob := glob s; loc := loc s; stk := upd (stk s) t (old :: stk s t) |} in
      (set_cfg sh t v s, None)
  | OExit =>
      match stk s t with
      | [] => (s, None)
      | o :: rest =>
          let s := {| glob := glob s; loc := loc s; stk := upd (stk s) t rest |} in
          (restore sh t o s, None)
      end
  | OExitExc =>
      match stk s t with
      | [] => (s, None)
      | o :: rest =>
          let s := {| glob := glob s; loc := loc s; stk := upd (stk s) t rest |} in
          if restore_in_finally sh then (restore sh t o s, None) else (s, None)
      end
  end.

Fixpoint run (sh : cfg_shape) (s : st) (ops : list (nat * op)) : st * list (nat * bool) :=
  match ops with
  | [] => (s, [])
  | top :: rest =>
      let (s', ob) := step sh s top in
      let (s'', obs) := run sh s' rest in
      (s'', match ob with Some b => (fst top, b) :: obs | None => obs end)
  end.

Definition observe (sh : cfg_shape) (ops : list (nat * op)) : list (nat * bool) :=
  snd (run sh (init_st sh) ops).

Definition obs_of (t : nat) (l : list (nat * bool)) : list bool :=
  map snd (filter (fun p => Nat.eqb (fst p) t) l).

Definition only (t : nat) (ops : list (nat * op)) : list (nat * op) :=
  filter (fun p => Nat.eqb (fst p) t) ops.

(* well-bracketed single-thread programs: any nesting of config_context, any
   set_config / get_config / mutation of returned dicts inside, exit by return or by
   exception *)
Inductive balanced : list op -> Prop :=
| bal_nil : balanced []
| bal_get l : balanced l -> balanced (OGet :: l)
| bal_mut v l : balanced l -> balanced (OMutRet v :: l)
| bal_set v l : balanced l -> balanced (OSet v :: l)
| bal_block v body l (exc : bool) :
    balanced body -> balanced l ->
    balanced (OEnter v :: body ++ (if exc then OExitExc else OExit) :: l).

(* the abstract guarded computation: what `if not skip_validation: <validate>; X = check_array(X)`
   followed by the body means *)
Section Guarded.
Variables (I R : Type) (validate : I -> bool) (coerce : I -> I) (body : I -> R).
Definition guarded (skip : bool) (x : I) : option R :=
  if skip then Some (body x)
  else if validate x then Some (body (coerce x)) else None.
End Guarded.
