(* Small list toolkit used by the model theorems (stdlib 8.16 lacks several). *)
From Coq Require Import List ZArith Bool Arith Lia.
From PK Require Import PyList.
Import ListNotations.

Set Implicit Arguments.

Lemma In_firstn {A} n (l : list A) x : In x (firstn n l) -> In x l.
Proof.
  revert l. induction n as [|n IH]; intros [|a l] H; cbn in *; try contradiction.
  destruct H as [->|H]; [left; reflexivity|right; apply IH; exact H].
Qed.

Lemma In_skipn {A} n (l : list A) x : In x (skipn n l) -> In x l.
Proof.
  revert l. induction n as [|n IH]; intros [|a l] H; cbn in *; try assumption.
  right. apply IH. exact H.
Qed.

Lemma In_pyslice {A} lo hi (l : list A) x : In x (pyslice lo hi l) -> In x l.
Proof. unfold pyslice. intros H. apply In_firstn in H. apply In_skipn in H. exact H. Qed.

Lemma In_last_rows {A} k (l : list A) x : In x (last_rows k l) -> In x l.
Proof. unfold last_rows. destruct (Nat.eqb k 0); [auto|apply In_skipn]. Qed.

Lemma In_drop_last {A} k (l : list A) x : In x (drop_last k l) -> In x l.
Proof. unfold drop_last. apply In_firstn. Qed.

Lemma map2_length {A B C} (f : A -> B -> C) l1 l2 :
  length (map2 f l1 l2) = Nat.min (length l1) (length l2).
Proof.
  revert l2. induction l1 as [|a l1 IH]; intros [|b l2]; cbn [map2 length]; try reflexivity.
  rewrite IH. reflexivity.
Qed.

Lemma In_map2 {A B C} (f : A -> B -> C) l1 l2 z :
  In z (map2 f l1 l2) -> exists a b, In a l1 /\ In b l2 /\ z = f a b.
Proof.
  revert l2. induction l1 as [|a l1 IH]; intros [|b l2] H; cbn [map2] in H; try contradiction.
  destruct H as [<-|H].
  - exists a, b. cbn. auto.
  - destruct (IH _ H) as [a' [b' [Ha [Hb Hz]]]]. exists a', b'. cbn. auto.
Qed.

Lemma In_zip {A B} (l1 : list A) (l2 : list B) a b : In (a, b) (zip l1 l2) -> In a l1 /\ In b l2.
Proof.
  revert l2. induction l1 as [|x l1 IH]; intros [|y l2] H; cbn [zip] in H; try contradiction.
  destruct H as [H|H].
  - inversion H; subst. cbn. auto.
  - destruct (IH _ H). cbn. auto.
Qed.

Lemma zip_length {A B} (l1 : list A) (l2 : list B) :
  length (zip l1 l2) = Nat.min (length l1) (length l2).
Proof.
  revert l2. induction l1 as [|a l1 IH]; intros [|b l2]; cbn [zip length]; try reflexivity.
  rewrite IH. reflexivity.
Qed.

Lemma mapi_from_length {A B} (f : nat -> A -> B) k l : length (mapi_from f k l) = length l.
Proof. revert k. induction l as [|a l IH]; intros k; cbn; [reflexivity|rewrite IH; reflexivity]. Qed.

Lemma mapi_length {A B} (f : nat -> A -> B) l : length (mapi f l) = length l.
Proof. apply mapi_from_length. Qed.

Lemma flat_map_length_const {A B} (f : A -> list B) l k :
  (forall a, In a l -> length (f a) = k) -> length (flat_map f l) = length l * k.
Proof.
  induction l as [|a l IH]; intros H; cbn [flat_map length]; [reflexivity|].
  rewrite app_length, H by (left; reflexivity). rewrite IH by (intros; apply H; right; assumption).
  lia.
Qed.

Lemma last_rows_length {A} k (l : list A) :
  k <= length l -> 0 < k -> length (last_rows k l) = k.
Proof.
  intros Hk H0. unfold last_rows. destruct (Nat.eqb_spec k 0) as [->|_]; [lia|].
  rewrite skipn_length. lia.
Qed.

Lemma last_rows_all {A} (l : list A) : last_rows (length l) l = l.
Proof.
  unfold last_rows. destruct (Nat.eqb_spec (length l) 0) as [_|_]; [reflexivity|].
  rewrite Nat.sub_diag. reflexivity.
Qed.

(* ------------------------------------------------------------ widths *)
Definition wid {A} (w : nat) (M : list (list A)) : Prop := forall r, In r M -> length r = w.

Lemma wid_nil {A} w : wid w (@nil (list A)).
Proof. intros r []. Qed.

Lemma wid_sub {A} w (M M' : list (list A)) : (forall r, In r M' -> In r M) -> wid w M -> wid w M'.
Proof. intros H Hw r Hr. apply Hw, H, Hr. Qed.

Lemma wid_app {A} w (M1 M2 : list (list A)) : wid w M1 -> wid w M2 -> wid w (M1 ++ M2).
Proof. intros H1 H2 r Hr. apply in_app_or in Hr. destruct Hr; auto. Qed.

Lemma wid_map {A B} w w' (f : list A -> list B) M :
  (forall r, length r = w -> length (f r) = w') -> wid w M -> wid w' (map f M).
Proof.
  intros Hf Hw r Hr. apply in_map_iff in Hr. destruct Hr as [r0 [<- Hr0]]. apply Hf, Hw, Hr0.
Qed.

Lemma wid_hstack {A} a b (M1 M2 : list (list A)) : wid a M1 -> wid b M2 -> wid (a + b) (hstack M1 M2).
Proof.
  intros H1 H2 r Hr. unfold hstack in Hr. apply In_map2 in Hr.
  destruct Hr as [r1 [r2 [Hr1 [Hr2 ->]]]]. rewrite app_length, (H1 _ Hr1), (H2 _ Hr2). reflexivity.
Qed.

Lemma wid_flat_map {A B} w (f : B -> list (list A)) l :
  (forall b, In b l -> wid w (f b)) -> wid w (flat_map f l).
Proof.
  intros H r Hr. apply in_flat_map in Hr. destruct Hr as [b [Hb Hr]]. exact (H b Hb r Hr).
Qed.

Lemma firstn_length_exact {A} n (r : list A) m : length r = n + m -> length (firstn n r) = n.
Proof. intros H. rewrite firstn_length. lia. Qed.

Lemma skipn_length_exact {A} n (r : list A) m : length r = n + m -> length (skipn n r) = m.
Proof. intros H. rewrite skipn_length. lia. Qed.

Lemma nth_skipn {A} n (l : list A) i d : nth i (skipn n l) d = nth (n + i) l d.
Proof.
  revert l. induction n as [|n IH]; intros l; [reflexivity|].
  destruct l as [|a l]; [destruct i; reflexivity|]. cbn [skipn Nat.add nth]. apply IH.
Qed.
