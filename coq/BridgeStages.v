(* Bridge for the per-episode transforms of pykoop/lifting_functions.py (C01-C04, C16): the functions
   REGENERATED from the source (Gen/StagesGen.v, numpy slice semantics over Z) are the leaf semantics
   of the model (Stage.v), to which the theorems about transform / inverse apply. *)
From Coq Require Import List ZArith Arith Bool Lia.
From PK Require Import PyList SliceLib Episodes Stage BridgeEpisodes RoundtripList NonInterf.
From PK.Gen Require Import StagesGen.
Import ListNotations.

(* ---------- numpy facts *)
Section Np.
Variable A : Type.
Implicit Types (M : list (list A)).

Lemma oslice_pyslice : forall (l : list A) a b, oslice (Some a) (Some b) l = pyslice a b l.
Proof. reflexivity. Qed.

Lemma oslice_last : forall (l : list A) k, oslice (Some (- Z.of_nat k)%Z) None l = last_rows k l.
Proof.
  intros l k. unfold oslice, last_rows. rewrite norm_idx_neg.
  destruct (Nat.eqb_spec k 0) as [->|Hk].
  - cbn [skipn]. rewrite Nat.sub_0_r. apply firstn_all.
  - apply firstn_all2. rewrite skipn_length. lia.
Qed.

Lemma oslice_between : forall (l : list A) a n,
  oslice (Some (Z.of_nat a)) (Some (Z.of_nat a + Z.of_nat n)%Z) l = firstn n (skipn a l).
Proof.
  intros l a n. unfold oslice. rewrite <- Nat2Z.inj_add, !norm_idx_nonneg.
  destruct (Nat.le_ge_cases a (length l)) as [H|H].
  - rewrite (Nat.min_l a) by exact H.
    destruct (Nat.le_ge_cases (a + n) (length l)) as [H2|H2].
    + rewrite Nat.min_l by exact H2. f_equal. lia.
    + rewrite Nat.min_r by exact H2. rewrite !firstn_all2; [reflexivity| |]; rewrite skipn_length; lia.
  - rewrite !skipn_all2 by lia. now rewrite !firstn_nil.
Qed.

Lemma hstack_assoc : forall M1 M2 M3, hstack (hstack M1 M2) M3 = hstack M1 (hstack M2 M3).
Proof.
  unfold hstack. induction M1 as [|a M1 IH]; intros [|b M2] [|c M3]; cbn [map2]; try reflexivity.
  now rewrite IH, app_assoc.
Qed.

Lemma fold_hstack : forall (Ms : list (list (list A))) M0 M,
  fold_left (@hstack A) Ms (hstack M0 M) = hstack M0 (fold_left (@hstack A) Ms M).
Proof.
  induction Ms as [|N Ms IH]; intros M0 M; cbn [fold_left]; [reflexivity|].
  now rewrite hstack_assoc, IH.
Qed.

Lemma hstack_list_hconcat : forall (Ms : list (list (list A))), hstack_list Ms = hconcat Ms.
Proof.
  intros [|M Ms]; [reflexivity|]. unfold hstack_list. revert M.
  induction Ms as [|N Ms IH]; intros M; [reflexivity|].
  cbn [fold_left]. rewrite fold_hstack, IH. reflexivity.
Qed.

Lemma hstack_map : forall (B : Type) (f g : B -> list A) (X : list B),
  hstack (map f X) (map g X) = map (fun b => f b ++ g b) X.
Proof. intros B f g X. unfold hstack. induction X as [|x X IH]; cbn [map map2]; [reflexivity|now rewrite IH]. Qed.

Lemma map2_map : forall (B C D : Type) (h : C -> D -> list A) (f : B -> C) (g : B -> D) (X : list B),
  map2 h (map f X) (map g X) = map (fun b => h (f b) (g b)) X.
Proof. intros B C D h f g X. induction X as [|x X IH]; cbn [map map2]; [reflexivity|now rewrite IH]. Qed.

(* np.hstack of blocks that are all computed row by row from the same matrix *)
Lemma hconcat_rowwise : forall (B : Type) (fs : list (B -> list A)) (X : list B), fs <> [] ->
  hconcat (map (fun f => map f X) fs) = map (fun b => concat (map (fun f => f b) fs)) X.
Proof.
  intros B fs X Hne. induction fs as [|f fs IH]; [contradiction|].
  destruct fs as [|f' fs].
  - cbn [map hconcat concat]. apply map_ext. intros r. now rewrite app_nil_r.
  - change (hconcat (map (fun f0 => map f0 X) (f :: f' :: fs)))
      with (hstack (map f X) (hconcat (map (fun f0 => map f0 X) (f' :: fs)))).
    rewrite IH by discriminate. rewrite hstack_map. reflexivity.
Qed.

Lemma zrange_nat : forall n, zrange (Z.of_nat n) = map Z.of_nat (seq 0 n).
Proof. intros n. unfold zrange. now rewrite Nat2Z.id. Qed.

Lemma zrange_down_nat : forall n, zrange_down (Z.of_nat n) = map Z.of_nat (rev (seq 0 (n + 1))).
Proof.
  intros n. unfold zrange_down. replace (Z.of_nat n + 1)%Z with (Z.of_nat (n + 1)) by lia.
  now rewrite zrange_nat, map_rev.
Qed.

Lemma chunks_nth : forall w n (r : list A),
  chunks w n r = map (fun i => firstn w (skipn (i * w) r)) (seq 0 n).
Proof.
  intros w n. induction n as [|n IH]; intros r; [reflexivity|].
  cbn [chunks seq map]. f_equal. rewrite IH, <- seq_shift, map_map. apply map_ext. intros i.
  rewrite skipn_skipn'. reflexivity.
Qed.

Lemma concat_map_single : forall (B : Type) (g : B -> A) (l : list B), concat (map (fun x => [g x]) l) = map g l.
Proof. intros B g l. induction l as [|x l IH]; cbn [map concat app]; [reflexivity|now rewrite IH]. Qed.

End Np.

Section Bridge.
Variable T : Type.
Variable O : ops T.
Notation t0 := (op_t0 O).
Notation t1 := (op_t1 O).
Notation tmul := (op_mul O).
Implicit Types (E X : list (list T)) (r : list T).

Definition rect (w : nat) (X : list (list T)) : Prop := forall r, In r X -> length r = w.

(* ---------------- DelayLiftingFn *)
Theorem gen_delay_model : forall n E, gen_delay T n E = delay n E.
Proof.
  intros n E. unfold gen_delay, delay, delay_blocks. cbn zeta. rewrite app_nil_l, hstack_list_hconcat.
  f_equal. rewrite zrange_down_nat, map_map. apply map_ext. intros i. unfold slice_rows. apply oslice_pyslice.
Qed.

Lemma cols_to : forall n X, slice_cols None (Some (Z.of_nat n)) X = map (firstn n) X.
Proof. intros n X. unfold slice_cols. apply map_ext. intros r. apply oslice_to. Qed.
Lemma cols_from : forall n X, slice_cols (Some (Z.of_nat n)) None X = map (skipn n) X.
Proof. intros n X. unfold slice_cols. apply map_ext. intros r. apply oslice_from. Qed.

Lemma zmin_nat : forall a b, Z.min (Z.of_nat a) (Z.of_nat b) = Z.of_nat (Nat.min a b).
Proof. intros a b. lia. Qed.

Theorem gen_delay_transform_model : forall ns nu dx du E,
  gen_delay_transform T ns dx du E = delay_ep (ns, nu) dx du E.
Proof.
  intros ns nu dx du E. unfold gen_delay_transform, delay_ep. cbn zeta. cbn [fst].
  rewrite cols_to, cols_from, !gen_delay_model, zmin_nat. unfold slice_rows. rewrite !oslice_last.
  reflexivity.
Qed.

(* numpy arrays are rectangular; the model reads the width from the first row, np.split from the
   one-row matrix X[[-1], :] *)
Theorem gen_undelay_model : forall n w E, rect w E -> E <> [] -> gen_undelay T n E = undelay n E.
Proof.
  intros n w E Hrect Hne. unfold gen_undelay, undelay. cbn zeta.
  destruct E as [|r0 E']; [contradiction|]. set (E := r0 :: E') in *.
  assert (Hw0 : length r0 = w) by (apply Hrect; left; reflexivity).
  assert (HwL : length (last E []) = w).
  { apply Hrect. destruct (exists_last Hne) as [E0 [x Hx]]. rewrite Hx, last_last. apply in_or_app. right. left. reflexivity. }
  unfold vstack_list. cbn [app concat].
  replace (Z.of_nat n + 1)%Z with (Z.of_nat (n + 1)) by lia.
  assert (Hnf : (Z.of_nat (width E) / Z.of_nat (n + 1))%Z = Z.of_nat (length r0 / (n + 1))).
  { unfold width, E. cbn [hd]. now rewrite Nat2Z.inj_div. }
  rewrite Hnf. f_equal.
  - unfold slice_cols, slice_rows. change (- (1))%Z with (- Z.of_nat 1)%Z. rewrite (oslice_drop _ E 1) by discriminate.
    unfold drop_last. apply map_ext. intros r. apply oslice_last.
  - unfold row_last. fold E. change (match E with [] => [] | _ :: _ => [last E []] end) with [last E []].
    unfold split_cols, width. cbn [hd map]. rewrite zrange_nat, map_map, <- map_rev.
    rewrite concat_map_single.
    rewrite chunks_nth, HwL, Hw0, map_rev. f_equal.
    replace (Z.to_nat (Z.of_nat w / Z.of_nat (n + 1))) with (w / (n + 1)) by (rewrite <- Nat2Z.inj_div; now rewrite Nat2Z.id).
    apply map_ext. intros i. now rewrite Nat2Z.id.
Qed.

Lemma rect_map : forall w (f : list T -> list T) w' X, rect w X -> (forall r, length r = w -> length (f r) = w') -> rect w' (map f X).
Proof. intros w f w' X H Hf r Hr. apply in_map_iff in Hr. destruct Hr as [r' [<- Hr']]. apply Hf, H, Hr'. Qed.

Theorem gen_delay_inverse_model : forall ns nu dx du w E, rect w E -> E <> [] ->
  gen_delay_inverse T (ns * (dx + 1)) dx du E = undelay_ep (ns, nu) dx du E.
Proof.
  intros ns nu dx du w E Hrect Hne. unfold gen_delay_inverse, undelay_ep. cbn zeta. cbn [fst].
  rewrite cols_to, cols_from.
  rewrite (@gen_undelay_model dx (Nat.min (ns * (dx + 1)) w) (map (firstn (ns * (dx + 1))) E)).
  2:{ eapply rect_map; [exact Hrect|]. intros r Hr. rewrite firstn_length. lia. }
  2:{ destruct E; [contradiction|discriminate]. }
  rewrite (@gen_undelay_model du (w - ns * (dx + 1)) (map (skipn (ns * (dx + 1))) E)).
  2:{ eapply rect_map; [exact Hrect|]. intros r Hr. rewrite skipn_length. lia. }
  2:{ destruct E; [contradiction|discriminate]. }
  rewrite zmin_nat. unfold slice_rows. rewrite !oslice_last. reflexivity.
Qed.

(* ---------------- BilinearInputLiftingFn *)
Lemma bmul_col_rows : forall ns X k,
  bmul_col tmul t0 (map (firstn ns) X) (map (skipn ns) X) (Z.of_nat k)
  = map (fun r => map (fun x => tmul x (nth k (skipn ns r) t0)) (firstn ns r)) X.
Proof. intros ns X k. unfold bmul_col. rewrite map2_map. apply map_ext. intros r. now rewrite Nat2Z.id. Qed.

Lemma list_as_nths : forall (l : list T), l = map (fun k => nth k l t0) (seq 0 (length l)).
Proof.
  intros l. apply nth_ext with (d := t0) (d' := t0); [now rewrite map_length, seq_length|].
  intros n Hn. symmetry.
  rewrite (nth_indep (map (fun k => nth k l t0) (seq 0 (length l))) t0 ((fun k => nth k l t0) 0))
    by (rewrite map_length, seq_length; exact Hn).
  etransitivity; [apply (map_nth (fun k => nth k l t0))|]. now rewrite seq_nth by exact Hn.
Qed.
Theorem gen_bilinear_transform_model : forall ns nu X, rect (ns + nu) X ->
  gen_bilinear_transform T t0 tmul ns nu X = map (bilinear_row O ns) X.
Proof.
  intros ns nu X Hrect. unfold gen_bilinear_transform. cbn zeta.
  rewrite cols_to, cols_from, zrange_nat, map_map, hstack_list_hconcat.
  set (fs := [firstn ns; @skipn T ns]
             ++ map (fun k r => map (fun x => tmul x (nth k (skipn ns r) t0)) (firstn ns r)) (seq 0 nu)).
  replace ([map (firstn ns) X; map (skipn ns) X] ++ _) with (map (fun f => map f X) fs).
  2:{ unfold fs. rewrite map_app, map_map. cbn [map]. f_equal. apply map_ext. intros k. symmetry. apply bmul_col_rows. }
  rewrite hconcat_rowwise by (unfold fs; discriminate).
  apply map_ext_in. intros r Hr. unfold fs, bilinear_row. rewrite map_app, map_map. cbn [map].
  rewrite concat_app. cbn [concat]. rewrite app_nil_r, <- app_assoc. f_equal. f_equal.
  rewrite flat_map_concat_map.
  symmetry. transitivity (concat (map (fun u => map (fun x => tmul x u) (firstn ns r))
                                      (map (fun k => nth k (skipn ns r) t0) (seq 0 (length (skipn ns r)))))).
  { f_equal. f_equal. apply list_as_nths. }
  rewrite map_map, skipn_length, (Hrect r Hr). replace (ns + nu - ns) with nu by lia. reflexivity.
Qed.

Lemma cols_between : forall a n X,
  slice_cols (Some (Z.of_nat a)) (Some (Z.of_nat a + Z.of_nat n)%Z) X = map (fun r => firstn n (skipn a r)) X.
Proof. intros a n X. unfold slice_cols. apply map_ext. intros r. apply oslice_between. Qed.

Theorem gen_bilinear_inverse_model : forall ns nu X,
  gen_bilinear_inverse T ns nu X = map (fun r => firstn ns r ++ firstn nu (skipn ns r)) X.
Proof.
  intros ns nu X. unfold gen_bilinear_inverse. cbn zeta.
  rewrite cols_to, cols_between. unfold hstack_list. cbn [fold_left]. apply hstack_map.
Qed.

(* ---------------- ConstantLiftingFn *)
Theorem gen_const_transform_model : forall ns X, gen_const_transform T t1 ns X = map (const_row O ns) X.
Proof.
  intros ns X. unfold gen_const_transform, ones_col. cbn zeta. rewrite cols_to, cols_from.
  unfold hstack_list. cbn [fold_left]. rewrite hstack_map, hstack_map. apply map_ext. intros r.
  unfold const_row. now rewrite <- app_assoc.
Qed.

Theorem gen_const_inverse_model : forall ns nu X,
  gen_const_inverse T ns nu X = map (fun r => firstn ns r ++ firstn nu (skipn (ns + 1) r)) X.
Proof.
  intros ns nu X. unfold gen_const_inverse. cbn zeta.
  replace (Z.of_nat ns + 1)%Z with (Z.of_nat (ns + 1)) by lia.
  rewrite cols_to, cols_between. unfold hstack_list. cbn [fold_left]. apply hstack_map.
Qed.

(* ---------------- RbfLiftingFn / KernelApproxLiftingFn: inverse, and the frame of the transform *)
Theorem gen_rbf_inverse_model : forall nso ns nu X,
  gen_rbf_inverse T nso ns nu X = map (fun r => firstn ns (firstn nso r) ++ firstn nu (skipn nso r)) X.
Proof.
  intros nso ns nu X. unfold gen_rbf_inverse. cbn zeta. rewrite !cols_to, cols_from, !map_map.
  unfold hstack_list. cbn [fold_left]. apply hstack_map.
Qed.

Theorem gen_kernel_inverse_model : forall nso ns nu X,
  gen_kernel_inverse T nso ns nu X = map (fun r => firstn ns (firstn nso r) ++ firstn nu (skipn nso r)) X.
Proof.
  intros nso ns nu X. unfold gen_kernel_inverse. cbn zeta. rewrite !cols_to, cols_from, !map_map.
  unfold hstack_list. cbn [fold_left]. apply hstack_map.
Qed.

(* the sub-estimator acts row by row (its transform has no cross-sample state) *)
Theorem gen_kernel_transform_model : forall (F : list (list T) -> list (list T)) (f : list T -> list T) ns X,
  F X = map f X -> gen_kernel_transform T F ns X = map (fun r => r ++ f r) X.
Proof.
  intros F f ns X HF. unfold gen_kernel_transform. cbn zeta. rewrite cols_to, cols_from, HF.
  unfold hstack_list. cbn [fold_left]. rewrite hstack_map, hstack_map. apply map_ext. intros r.
  now rewrite firstn_skipn.
Qed.

(* ---------------- PolynomialLiftingFn / SkLearnLiftingFn: the frame around the wrapped transformer *)
Theorem gen_poly_transform_model : forall (F : list (list T) -> list (list T)) (f : list T -> list T) order X,
  F X = map f X -> gen_poly_transform T t0 F order X = map (fun r => map (fun j => nth j (f r) t0) order) X.
Proof. intros F f order X HF. unfold gen_poly_transform, take_cols. cbn zeta. now rewrite HF, map_map. Qed.

Theorem gen_poly_inverse_model : forall order X,
  gen_poly_inverse T t0 order X = map (fun r => map (fun j => nth j r t0) order) X.
Proof. reflexivity. Qed.

Theorem gen_sk_transform_model : forall (F : list (list T) -> list (list T)) X, gen_sk_transform T F X = F X.
Proof. reflexivity. Qed.
End Bridge.

(* ---------- the leaf semantics of the model, kind by kind, are the generated code *)
Section Leaf.
Variable T : Type.
Variable O : ops T.
Notation t0 := (op_t0 O).
Notation t1 := (op_t1 O).
Notation tmul := (op_mul O).

Theorem leaf_delay_generated : forall (ep : bool) ns nu dx du (X : dmat T),
  leaf_transform O (LDelay T dx du) ep (ns, nu) X = map_episodes ep (gen_delay_transform T ns dx du) X.
Proof.
  intros. cbn [leaf_transform]. apply map_episodes_ext. intros E. symmetry. apply gen_delay_transform_model.
Qed.

Theorem leaf_undelay_generated : forall ns nu dx du w (E : list (list T)), rect T w E -> E <> [] ->
  undelay_ep (ns, nu) dx du E = gen_delay_inverse T (fst (leaf_dims (LDelay T dx du) (ns, nu))) dx du E.
Proof. intros ns nu dx du w E Hr Hne. cbn [leaf_dims fst]. symmetry. now apply gen_delay_inverse_model with (w := w). Qed.

Theorem leaf_rowwise_generated : forall ns nu (E : list (list T)), rect T (ns + nu) E ->
  map (leaf_row O (LBilinear T) (ns, nu)) E = gen_bilinear_transform T t0 tmul ns nu E
  /\ map (leaf_inv_row O (LBilinear T) (ns, nu)) E = gen_bilinear_inverse T ns nu E
  /\ map (leaf_row O (LConst T) (ns, nu)) E = gen_const_transform T t1 ns E.
Proof.
  intros ns nu E Hrect. split; [|split].
  - symmetry. now apply gen_bilinear_transform_model.
  - symmetry. apply gen_bilinear_inverse_model.
  - symmetry. apply gen_const_transform_model.
Qed.

Theorem leaf_inverse_generated : forall ns nu (E : list (list T)),
  map (leaf_inv_row O (LConst T) (ns, nu)) E = gen_const_inverse T ns nu E
  /\ (forall id centers, map (leaf_inv_row O (LRbf id centers) (ns, nu)) E
        = gen_rbf_inverse T (fst (leaf_dims (LRbf id centers) (ns, nu))) ns nu E)
  /\ (forall id nf, map (leaf_inv_row O (LKernel T id nf) (ns, nu)) E
        = gen_kernel_inverse T (fst (leaf_dims (LKernel T id nf) (ns, nu))) ns nu E)
  /\ (forall powers, map (leaf_inv_row O (LPoly T powers) (ns, nu)) E
        = gen_poly_inverse T t0 (seq 0 ns ++ seq (fst (leaf_dims (LPoly T powers) (ns, nu))) nu) E).
Proof.
  intros ns nu E. split; [|split; [|split]].
  - symmetry. apply gen_const_inverse_model.
  - intros id centers. symmetry. apply gen_rbf_inverse_model.
  - intros id nf. symmetry. apply gen_kernel_inverse_model.
  - intros powers. reflexivity.
Qed.

(* KernelApproxLiftingFn: the wrapped kernel approximation computes feature j of a row as kern id j *)
Theorem leaf_kernel_generated : forall ns nu id nf (F : list (list T) -> list (list T)) (E : list (list T)),
  F E = map (fun r => map (fun j => op_kern O id j r) (seq 0 nf)) E ->
  map (leaf_row O (LKernel T id nf) (ns, nu)) E = gen_kernel_transform T F ns E.
Proof. intros ns nu id nf F E HF. symmetry. now apply gen_kernel_transform_model. Qed.

(* PolynomialLiftingFn: PolynomialFeatures computes one monomial per row of powers_; the code reorders *)
Lemma poly_order_in_range : forall powers d j, In j (poly_order (poly_fit_of powers d)) -> j < length powers.
Proof.
  intros powers [ns nu] j H. unfold poly_order, poly_fit_of in H. cbn [p_orig_states p_other_states p_orig_inputs p_other_inputs] in H.
  assert (Ho : forall lo cnt, In j (poly_orig powers (ns + nu) lo cnt) -> j < length powers).
  { intros lo cnt Hj. unfold poly_orig in Hj. apply in_flat_map in Hj. destruct Hj as [i [_ Hj]].
    apply (find_all_In _ _ _ []) in Hj. tauto. }
  assert (Ha : In j (poly_all_inputs powers ns) -> j < length powers).
  { intros Hj. apply (find_all_In _ _ _ []) in Hj. tauto. }
  repeat (apply in_app_or in H; destruct H as [H|H]).
  - eapply Ho, H.
  - apply filter_In in H. destruct H as [H _]. apply in_seq in H. lia.
  - eapply Ho, H.
  - apply filter_In in H. destruct H as [H _]. apply Ha, H.
Qed.

Theorem leaf_poly_generated : forall ns nu powers (F : list (list T) -> list (list T)) (E : list (list T)),
  F E = map (fun r => map (fun p => monomial O p r) powers) E ->
  map (leaf_row O (LPoly T powers) (ns, nu)) E
  = gen_poly_transform T t0 F (poly_order (poly_fit_of powers (ns, nu))) E.
Proof.
  intros ns nu powers F E HF. rewrite (@gen_poly_transform_model T O F _ _ E HF). apply map_ext. intros r.
  cbn [leaf_row]. apply map_ext_in. intros j Hj. apply poly_order_in_range in Hj.
  rewrite (nth_indep _ t0 ((fun p => monomial O p r) [])) by (rewrite map_length; exact Hj).
  symmetry. apply (map_nth (fun p => monomial O p r)).
Qed.
End Leaf.
